package main

import (
	"encoding/json"
	"fmt"

	textwire "github.com/textwire/textwire/v2"
	"github.com/textwire/textwire/v2/lexer"
	"github.com/textwire/textwire/v2/parser"
)

// parse family (C08): inputs generated from the PlusCal model of machine P (spec/TwParser.tla). The real lexer and
// parser must return, with a program xor recorded errors that carry a line; inputs the model tags as cut inside an
// open construct must be rejected. Whether the model and the implementation agree on accepting the other inputs is
// recorded as drift only.
type parseCase struct {
	Src      string   `json:"src"`
	ParseErr bool     `json:"parseErr"`
	MustErr  bool     `json:"mustErr"`
	FirstErr string   `json:"firstErr"`
	Toks     []string `json:"toks"`
	Tags     []string `json:"tags"`
}

func parseFamily(raw json.RawMessage) Result {
	var c parseCase
	if err := json.Unmarshal(raw, &c); err != nil {
		return Result{ID: caseID(raw), Status: "skip", Msg: err.Error()}
	}
	src := expandMarkers(c.Src)
	res := Result{ID: fmt.Sprintf("%q", src), Status: "ok", Tags: c.Tags, Stats: map[string]int{}}
	if _, capped := lexAll(src); capped {
		res.Status, res.Kind, res.Msg = "viol", "hang", "lexer produced tokens without reaching EOF"
		return res
	}
	// the token types machine P was run on are those the real lexer produces (the model's WS is a text token that
	// holds white space only): a difference means the model judged another token string than the parser saw
	tokDrift := ""
	if len(c.Toks) > 0 {
		real, _ := lexTokens(src, false)
		var names []string
		for _, t := range real {
			if t.T != "EOF" {
				names = append(names, t.T)
			}
		}
		same := len(names) == len(c.Toks)
		for k := 0; same && k < len(names); k++ {
			want := c.Toks[k]
			if want == "WS" {
				want = "HTML"
			}
			same = names[k] == want
		}
		if !same {
			tokDrift = fmt.Sprintf("model tokens %v, lexer tokens %v", c.Toks, names)
		}
	}
	p := parser.New(lexer.New(src), "")
	prog := p.ParseProgram()
	errs := p.Errors()
	if prog == nil && len(errs) == 0 {
		res.Status, res.Kind, res.Msg = "viol", "no-program-no-error", "ParseProgram returned nil without recording an error"
		return res
	}
	for _, e := range errs {
		if e.Line() < 1 {
			res.Status, res.Kind, res.Msg = "viol", "error-without-line", e.String()
			return res
		}
	}
	// (evaluated only when the parser recorded errors: an accepted template may loop for ever by design, '@for(;;)@end')
	var err error
	if len(errs) > 0 {
		_, err = textwire.EvaluateString(src, nil)
	}
	if len(errs) > 0 && err == nil {
		res.Status, res.Kind, res.Msg = "viol", "errors-ignored", "EvaluateString succeeded although the parser recorded: "+errs[0].String()
		return res
	}
	if c.MustErr {
		res.Stats["nontrivial"] = 1
		if len(errs) == 0 {
			res.Status, res.Kind, res.Msg = "viol", "missing-error", "a template cut inside an open construct was accepted without an error"
			return res
		}
	}
	if tokDrift != "" {
		res.Status, res.Kind, res.Msg = "drift", "token-types", tokDrift
		return res
	}
	if (len(errs) > 0) != c.ParseErr {
		res.Status, res.Kind = "drift", "parse-outcome"
		res.Msg = fmt.Sprintf("model: error=%v (%s), implementation: %d errors", c.ParseErr, c.FirstErr, len(errs))
	}
	return res
}

func init() { families["parse"] = parseFamily }
