package main

import (
	"encoding/json"
	"fmt"
	"os"
	"regexp"
	"strconv"
	"strings"

	textwire "github.com/textwire/textwire/v2"
)

// A render case: one template source, a data map, and what the model says must come out.
//
//	expect.kind = "out": the render succeeds with exactly expect.out
//	            = "err": the render fails (expect.line > 0: on that line; expect.has: message contains each)
//	            = "any": no property fixes the outcome; it must only return (no panic, no hang)
type expectation struct {
	Kind string   `json:"kind"`
	Out  string   `json:"out"`
	Why  string   `json:"why"`
	Line int      `json:"line"`
	Has  []string `json:"has"`
}

type renderCase struct {
	ID     any         `json:"id"`
	Src    string      `json:"src"`
	Data   []tpair     `json:"data"`
	Expect expectation `json:"expect"`
	Tags   []string    `json:"tags"`
}

var errMeta = regexp.MustCompile(`^\[Textwire ERROR(?: in (.*?))?:(\d+)\]:\n`)

// errLinePath extracts line and path from the "[Textwire ERROR in <path>:<line>]:" prefix of a plain error.
func errLinePath(err error) (line int, path string, ok bool) {
	m := errMeta.FindStringSubmatch(err.Error())
	if m == nil {
		return 0, "", false
	}
	n, _ := strconv.Atoi(m[2])
	return n, m[1], true
}

func judgeRender(res *Result, exp expectation, out string, err error) {
	switch exp.Kind {
	case "any":
		return
	case "out":
		res.Stats["nontrivial"] = 1
		want := expandMarkers(exp.Out)
		if err != nil {
			res.Status, res.Kind = "viol", "wrong-error"
			res.Msg = fmt.Sprintf("want output %q, got error %s", want, firstLines(err.Error(), 2))
			res.Got = map[string]any{"err": err.Error()}
		} else if out != want {
			res.Status, res.Kind = "viol", "wrong-output"
			res.Msg = fmt.Sprintf("want %q got %q", want, out)
			res.Got = map[string]any{"out": out}
		}
	case "err":
		res.Stats["nontrivial"] = 1
		if err == nil {
			res.Status, res.Kind = "viol", "missing-error"
			res.Msg = fmt.Sprintf("want an error (%s), got output %q", exp.Why, out)
			res.Got = map[string]any{"out": out}
			return
		}
		if exp.Line > 0 {
			line, _, ok := errLinePath(err)
			if !ok || line != exp.Line {
				res.Status, res.Kind = "viol", "wrong-line"
				res.Msg = fmt.Sprintf("want the error on line %d, got %s", exp.Line, firstLines(err.Error(), 2))
				res.Got = map[string]any{"err": err.Error()}
				return
			}
		}
		for _, h := range exp.Has {
			if !strings.Contains(err.Error(), h) {
				res.Status, res.Kind = "viol", "wrong-error"
				res.Msg = fmt.Sprintf("error does not mention %q: %s", h, firstLines(err.Error(), 2))
				res.Got = map[string]any{"err": err.Error()}
				return
			}
		}
	default:
		res.Status, res.Msg = "skip", "unknown expectation kind "+exp.Kind
	}
}

func renderFamily(raw json.RawMessage) Result {
	var c renderCase
	if err := json.Unmarshal(raw, &c); err != nil {
		return Result{ID: caseID(raw), Status: "skip", Msg: err.Error()}
	}
	res := Result{ID: caseID(raw), Status: "ok", Tags: c.Tags, Stats: map[string]int{}}
	data, err := goData(c.Data)
	if err != nil {
		res.Status, res.Msg = "skip", err.Error()
		return res
	}
	src := expandMarkers(c.Src)
	_ = os.Getenv
	out, rerr := textwire.EvaluateString(src, data)
	judgeRender(&res, c.Expect, out, rerr)
	return res
}

func init() { families["render"] = renderFamily }
