package main

import (
	"encoding/json"
	"fmt"
	"html"
	"os"
	"path/filepath"
	"regexp"
	"strconv"
	"strings"
	"sync"
	"unicode/utf8"

	textwire "github.com/textwire/textwire/v2"
	"github.com/textwire/textwire/v2/config"
)

// A render case: one template source, a data map, and what the model says must come out.
//
//	expect.kind = "out": the render succeeds with exactly expect.out
//	            = "err": the render fails (expect.line > 0: on that line; expect.has: message contains each)
//	            = "any": no property fixes the outcome; it must only return (no panic, no hang)
type expectation struct {
	Kind string   `json:"kind"`
	Out  string   `json:"out"`
	Why  string   `json:"why"`
	Line int      `json:"line"`
	Has  []string `json:"has"`
	Outs []string `json:"outs"`
	Lit  string   `json:"lit"`
}

type renderCase struct {
	ID     any         `json:"id"`
	Src    string      `json:"src"`
	Data   []tpair     `json:"data"`
	Expect expectation `json:"expect"`
	Tags   []string    `json:"tags"`
}

var errMeta = regexp.MustCompile(`^\[Textwire ERROR(?: in (.*?))?:(\d+)\]:\n`)

// errLinePath extracts line and path from the "[Textwire ERROR in <path>:<line>]:" prefix of a plain error.
func errLinePath(err error) (line int, path string, ok bool) {
	m := errMeta.FindStringSubmatch(err.Error())
	if m == nil {
		return 0, "", false
	}
	n, _ := strconv.Atoi(m[2])
	return n, m[1], true
}

func judgeRender(res *Result, exp expectation, out string, err error) {
	switch exp.Kind {
	case "any":
		return
	case "out":
		res.Stats["nontrivial"] = 1
		want := expandMarkers(exp.Out)
		if err != nil {
			res.Status, res.Kind = "viol", "wrong-error"
			res.Msg = fmt.Sprintf("want output %q, got error %s", want, firstLines(err.Error(), 2))
			res.Got = map[string]any{"err": err.Error()}
		} else if out != want {
			res.Status, res.Kind = "viol", "wrong-output"
			res.Msg = fmt.Sprintf("want %q got %q", want, out)
			res.Got = map[string]any{"out": out}
		}
	case "escaped":
		// C10's own predicates: exp.Out is the specification's escaped rendering (for diagnosis and for the unescaped
		// reference), exp.Lit the literal's text
		res.Stats["nontrivial"] = 1
		want := expandMarkers(exp.Out)
		if err != nil {
			res.Status, res.Kind = "viol", "wrong-error"
			res.Msg = fmt.Sprintf("want escaped output %q, got error %s", want, firstLines(err.Error(), 2))
			return
		}
		if out == want {
			return
		}
		plain := html.UnescapeString(want)
		switch {
		case strings.ContainsAny(out, "<>"):
			res.Status, res.Kind, res.Msg = "viol", "raw-angle-bracket", fmt.Sprintf("output %q contains a raw < or > from the literal", out)
		case html.UnescapeString(out) != plain:
			res.Status, res.Kind, res.Msg = "viol", "wrong-output", fmt.Sprintf("unescaping the output %q gives %q, not the literal's text %q", out, html.UnescapeString(out), plain)
		case strings.Count(out, "\"") != strings.Count(plain, "\"") || strings.Count(out, "'") != strings.Count(plain, "'"):
			res.Status, res.Kind, res.Msg = "viol", "quotes-changed", fmt.Sprintf("quotes do not stay as written: %q", out)
		case !ampsAreEntities(out):
			res.Status, res.Kind, res.Msg = "viol", "bare-ampersand", fmt.Sprintf("an & of the literal is not an entity in %q", out)
		}
	case "errorout":
		// either the render fails, or it prints exactly this
		res.Stats["nontrivial"] = 1
		if err == nil && out != expandMarkers(exp.Out) {
			res.Status, res.Kind = "viol", "wrong-output"
			res.Msg = fmt.Sprintf("want an error (%s) or %q, got %q", exp.Why, expandMarkers(exp.Out), out)
			res.Got = map[string]any{"out": out}
		}
	case "oneof":
		res.Stats["nontrivial"] = 1
		if err != nil {
			res.Status, res.Kind = "viol", "wrong-error"
			res.Msg = fmt.Sprintf("want one of %q, got error %s", exp.Outs, firstLines(err.Error(), 2))
			return
		}
		for _, o := range exp.Outs {
			if out == expandMarkers(o) {
				return
			}
		}
		res.Status, res.Kind = "viol", "wrong-output"
		res.Msg = fmt.Sprintf("want one of %q got %q", exp.Outs, out)
	case "err":
		res.Stats["nontrivial"] = 1
		if err == nil {
			res.Status, res.Kind = "viol", "missing-error"
			res.Msg = fmt.Sprintf("want an error (%s), got output %q", exp.Why, out)
			res.Got = map[string]any{"out": out}
			return
		}
		if exp.Line > 0 {
			line, _, ok := errLinePath(err)
			if !ok || line != exp.Line {
				res.Status, res.Kind = "viol", "wrong-line"
				res.Msg = fmt.Sprintf("want the error on line %d, got %s", exp.Line, firstLines(err.Error(), 2))
				res.Got = map[string]any{"err": err.Error()}
				return
			}
		}
		for _, h := range exp.Has {
			if !strings.Contains(err.Error(), h) {
				res.Status, res.Kind = "viol", "wrong-error"
				res.Msg = fmt.Sprintf("error does not mention %q: %s", h, firstLines(err.Error(), 2))
				res.Got = map[string]any{"err": err.Error()}
				return
			}
		}
	default:
		res.Status, res.Msg = "skip", "unknown expectation kind "+exp.Kind
	}
}

var entityRe = regexp.MustCompile(`^&(#[0-9]+|#[xX][0-9a-fA-F]+|[a-zA-Z][a-zA-Z0-9]*);`)

func ampsAreEntities(s string) bool {
	for i := 0; i < len(s); i++ {
		if s[i] == '&' && !entityRe.MatchString(s[i:]) {
			return false
		}
	}
	return true
}

func renderFamily(raw json.RawMessage) Result {
	var c renderCase
	if err := json.Unmarshal(raw, &c); err != nil {
		return Result{ID: caseID(raw), Status: "skip", Msg: err.Error()}
	}
	res := Result{ID: caseID(raw), Status: "ok", Tags: c.Tags, Stats: map[string]int{}}
	data, err := goData(c.Data)
	if err != nil {
		res.Status, res.Msg = "skip", err.Error()
		return res
	}
	src := expandMarkers(c.Src)
	if os.Getenv("TWH_PROP") == "C11" {
		registerShadows()
	}
	out, rerr := textwire.EvaluateString(src, data)
	judgeRender(&res, c.Expect, out, rerr)
	if res.Status == "ok" && os.Getenv("TWH_PROP") == "C11" && rerr == nil && utf8.ValidString(src) && !utf8.ValidString(out) {
		res.Status, res.Kind = "viol", "invalid-utf8"
		res.Msg = fmt.Sprintf("valid UTF-8 input produced invalid UTF-8 output %q", out)
	}
	if res.Status == "ok" && os.Getenv("TWH_ALSO_TEMPLATE") != "" {
		viaTemplate(&res, c, src, data)
	}
	if res.Status == "ok" && os.Getenv("TWH_PROP") == "C09" && rerr != nil {
		// C09: errors raised during evaluation carry the line of the construct
		res.Stats["nontrivial"] = 1
		if line, _, ok := errLinePath(rerr); !ok || line < 1 {
			res.Status, res.Kind = "viol", "error-without-line"
			res.Msg = "evaluation error without a line: " + firstLines(rerr.Error(), 2)
		}
	}
	return res
}

func init() { families["render"] = renderFamily }

// C11: "a built-in name takes precedence over a custom function of the same name". Custom functions returning a
// sentinel are registered under the name of every built-in of their own receiver type; the contracts must still hold.
var shadowOnce sync.Once

func registerShadows() {
	shadowOnce.Do(func() {
		for _, n := range []string{"len", "split", "raw", "trim", "trimRight", "trimLeft", "upper", "lower", "capitalize",
			"reverse", "contains", "truncate", "decimal", "at", "first", "last", "repeat"} {
			textwire.RegisterStrFunc(n, func(s string, args ...any) string { return "CUSTOM" })
		}
		for _, n := range []string{"len", "join", "rand", "reverse", "slice", "shuffle", "contains", "append", "prepend"} {
			textwire.RegisterArrFunc(n, func(a []any, args ...any) []any { return []any{"CUSTOM"} })
		}
		for _, n := range []string{"int", "str", "abs", "ceil", "floor", "round"} {
			textwire.RegisterFloatFunc(n, func(f float64, args ...any) float64 { return -777 })
		}
		for _, n := range []string{"float", "abs", "str", "len", "decimal"} {
			textwire.RegisterIntFunc(n, func(i int, args ...any) int { return -777 })
		}
		for _, n := range []string{"binary", "then"} {
			textwire.RegisterBoolFunc(n, func(b bool, args ...any) bool { return !b })
		}
	})
}

// viaTemplate renders the same source as a template file through NewTemplate + (*Template).String and judges it with
// the same expectation; for errors it also checks C13's path claim: the absolute path of the page's file.
func viaTemplate(res *Result, c renderCase, src string, data map[string]any) {
	root, err := setupTree([]treeFile{{Name: "page", Src: src}}, treeCfg{Dir: "t", Ext: ".tw"})
	if err != nil {
		res.Status, res.Msg = "skip", err.Error()
		return
	}
	defer cleanupTree(root)
	textwire.VerifReset()
	res.Stats["via_template"] = 1
	want := filepath.Join(root, "t", "page.tw")
	tpl, lerr := textwire.NewTemplate(&config.Config{TemplateDir: "t", TemplateExt: ".tw"})
	var out string
	var rerr error
	path := ""
	if lerr != nil {
		rerr = lerr
		_, path, _ = errLinePath(lerr)
	} else {
		o, ferr := tpl.String("page", data)
		out = o
		if ferr != nil {
			rerr = ferr.Error()
			path = ferr.Filepath()
		}
	}
	sub := Result{Status: "ok", Stats: map[string]int{}}
	judgeRender(&sub, c.Expect, out, rerr)
	if sub.Status != "ok" {
		res.Status, res.Kind = sub.Status, sub.Kind
		res.Msg = "as a template file through NewTemplate/String: " + sub.Msg
		res.Tags = append(res.Tags, "via-template")
		return
	}
	if rerr != nil && c.Expect.Kind == "err" && c.Expect.Line > 0 && path != want {
		res.Status, res.Kind = "viol", "wrong-path"
		res.Msg = fmt.Sprintf("as a template file: the error names %q, the construct is in %q", path, want)
		res.Tags = append(res.Tags, "via-template")
	}
}
