package main

import (
	"encoding/json"
	"fmt"
	"math"
	"reflect"

	textwire "github.com/textwire/textwire/v2"
	"github.com/textwire/textwire/v2/object"
)

// goval is the JSON form of a model GoVal (spec/MC_Data.tla).
type goval struct {
	G     string  `json:"g"`
	B     bool    `json:"b"`
	S     string  `json:"s"`
	W     string  `json:"w"`
	Which string  `json:"which"`
	FW    int     `json:"fw"`
	N     int64   `json:"n"`
	E     int     `json:"e"`
	To    []goval `json:"to"`
	Es    []goval `json:"es"`
	Typed bool    `json:"typed"`
	Ps    []struct {
		K string `json:"k"`
		V goval  `json:"v"`
	} `json:"ps"`
	Fs []struct {
		N string `json:"n"`
		X bool   `json:"x"`
		V goval  `json:"v"`
	} `json:"fs"`
	U string `json:"u"`
}

var anyType = reflect.TypeOf((*any)(nil)).Elem()

func intOf(w, which string) any {
	pick := func(min, max int64) int64 {
		switch which {
		case "min":
			return min
		case "max":
			return max
		case "five":
			return 5
		}
		return 0
	}
	switch w {
	case "int8":
		return int8(pick(math.MinInt8, math.MaxInt8))
	case "int16":
		return int16(pick(math.MinInt16, math.MaxInt16))
	case "int32":
		return int32(pick(math.MinInt32, math.MaxInt32))
	case "int64":
		return pick(math.MinInt64, math.MaxInt64)
	case "int":
		return int(pick(math.MinInt64, math.MaxInt64))
	case "uint8":
		return uint8(pick(0, math.MaxUint8))
	case "uint16":
		return uint16(pick(0, math.MaxUint16))
	case "uint32":
		return uint32(pick(0, math.MaxUint32))
	case "uint64":
		return uint64(pick(0, math.MaxInt64)) // C12: within the int64 range
	case "uint":
		return uint(pick(0, math.MaxInt64))
	}
	panic("unknown width " + w)
}

// materialise builds the Go value; hasIdentity = it contains a value DeepEqual cannot compare structurally.
func materialise(v goval) (val any, hasIdentity bool) {
	switch v.G {
	case "bool":
		return v.B, false
	case "string":
		return expandMarkers(v.S), false
	case "int":
		return intOf(v.W, v.Which), false
	case "float":
		f := float64(v.N) / float64(int64(1)<<uint(v.E))
		if v.FW == 32 {
			return float32(f), false
		}
		return f, false
	case "nil":
		return nil, false
	case "ptr":
		if len(v.To) == 0 {
			switch v.W {
			case "int":
				return (*int)(nil), false
			case "string":
				return (*string)(nil), false
			default:
				return (*struct{ A int })(nil), false
			}
		}
		inner, id := materialise(v.To[0])
		if inner == nil {
			var x any
			return &x, id
		}
		p := reflect.New(reflect.TypeOf(inner))
		p.Elem().Set(reflect.ValueOf(inner))
		return p.Interface(), id
	case "named":
		type (
			nU32  uint32
			nInt  int
			nStr  string
			nF64  float64
			nBool bool
			nU8   uint8
			nPtr  uintptr
		)
		switch v.U {
		case "uint32":
			return nU32(7), false
		case "int":
			return nInt(-7), false
		case "string":
			return nStr("named"), false
		case "float64":
			return nF64(2.5), false
		case "bool":
			return nBool(true), false
		case "uint8":
			return nU8(200), false
		default:
			return nPtr(9), false
		}
	case "keyed":
		type K string
		if v.U == "namedstring" {
			return map[K]string{"k": "v"}, false
		}
		return map[any]any{"k": "v", "l": 1}, false
	case "shared":
		p := &sharedT{Name: "c"}
		n := 5
		switch v.U {
		case "struct":
			return &struct{ A, B *sharedT }{p, p}, false
		case "slice":
			return &[]*int{&n, &n, &n}, false
		case "map":
			return &map[string]*sharedT{"a": p, "b": p}, false
		default:
			return &struct {
				Inner []*sharedT
				Name  string
			}{[]*sharedT{p, p}, "n"}, false
		}
	case "embedded":
		switch v.U {
		case "value":
			return embValue{Base: Base{Title: "t"}, Name: "n"}, false
		case "ptr":
			return embPtr{Base: &Base{Title: "t"}, Name: "n"}, false
		case "ptrnil":
			return embPtr{Name: "n"}, false
		default:
			return embUnexported{base: base{Title: "t"}, Name: "n"}, false
		}
	case "samename":
		return []any{rowOne(), rowTwo()}, false
	case "nilslice":
		return []string(nil), false
	case "nilmap":
		return map[string]int(nil), false
	case "slice":
		vals := make([]any, len(v.Es))
		id := false
		for i, e := range v.Es {
			var eid bool
			vals[i], eid = materialise(e)
			id = id || eid
		}
		if v.Typed && len(vals) > 0 {
			s := reflect.MakeSlice(reflect.SliceOf(reflect.TypeOf(vals[0])), 0, len(vals))
			for _, x := range vals {
				s = reflect.Append(s, reflect.ValueOf(x))
			}
			return s.Interface(), id
		}
		return vals, id
	case "map":
		m := map[string]any{}
		id := false
		for _, p := range v.Ps {
			var eid bool
			m[p.K], eid = materialise(p.V)
			id = id || eid
		}
		return m, id
	case "struct":
		fields := make([]reflect.StructField, len(v.Fs))
		vals := make([]any, len(v.Fs))
		id := false
		for i, f := range v.Fs {
			var eid bool
			vals[i], eid = materialise(f.V)
			id = id || eid
			t := anyType
			if vals[i] != nil {
				t = reflect.TypeOf(vals[i])
			}
			fields[i] = reflect.StructField{Name: f.N, Type: t}
			if !f.X {
				fields[i].PkgPath = "twverif"
			}
		}
		sv := reflect.New(reflect.StructOf(fields)).Elem()
		for i, f := range v.Fs {
			if f.X && vals[i] != nil {
				sv.Field(i).Set(reflect.ValueOf(vals[i]))
			}
		}
		return sv.Interface(), id
	case "unsupported":
		switch v.U {
		case "chan":
			return make(chan int), true
		case "func":
			return func() {}, true
		case "complex":
			return complex(1, 2), false
		case "array":
			return [2]int{1, 2}, false
		case "mapint":
			return map[int]string{1: "a"}, false
		case "mapintempty":
			return map[int]string{}, false
		case "mapintnil":
			return map[int]string(nil), false
		case "mapany":
			return map[any]any{1: "a"}, false
		case "mapanymixed":
			return map[any]any{"a": 1, nil: 2}, false
		case "chan-nil":
			return (chan int)(nil), false
		case "func-nil":
			return (func())(nil), false
		case "uintptr":
			return uintptr(7), false
		}
	}
	panic("unknown GoVal " + v.G)
}

type sharedT struct{ Name string }

// structs with an embedded struct (by value, by pointer, of an unexported type)
type Base struct{ Title string }
type base struct{ Title string }
type embValue struct {
	Base
	Name string
}
type embPtr struct {
	*Base
	Name string
}
type embUnexported struct {
	base
	Name string
}

type dataCase struct {
	G      goval       `json:"g"`
	Path   string      `json:"path"`
	Probe  string      `json:"probe"` // "" print the node | "truth" its truth value through ?: | "len" its length
	Expect expectation `json:"expect"`
	Tags   []string    `json:"tags"`
}

func dataFamily(raw json.RawMessage) Result {
	var c dataCase
	if err := json.Unmarshal(raw, &c); err != nil {
		return Result{ID: caseID(raw), Status: "skip", Msg: err.Error()}
	}
	src := "{{ d" + c.Path + " }}"
	switch c.Probe {
	case "truth":
		src = "{{ d" + c.Path + " ? \"T\" : \"F\" }}"
	case "len":
		src = "{{ d" + c.Path + ".len() }}"
	}
	res := Result{ID: fmt.Sprintf("%s with d = %s", src, compactJSON(raw)), Status: "ok", Tags: c.Tags, Stats: map[string]int{}}
	val, hasID := materialise(c.G)
	ref, _ := materialise(c.G)
	data := map[string]any{"d": val, "other": 1}
	out, err := textwire.EvaluateString(src, data)
	judgeRender(&res, c.Expect, out, err)
	if res.Status != "ok" {
		return res
	}
	// the same through the environment constructor used by (*Template).String
	env, ferr := object.EnvFromMap(map[string]any{"d": val})
	if c.Expect.Kind == "err" && c.Expect.Why == "unsupported value in the data" && ferr == nil {
		res.Status, res.Kind, res.Msg = "viol", "missing-error", "EnvFromMap accepted an unsupported value"
		return res
	}
	_ = env
	// the same pointer rendered again after what it points to has changed shows the new value (what is visible is the
	// value at the time of the call)
	if v := reflect.ValueOf(val); c.Probe == "" && c.Path == "" && val != nil && v.Kind() == reflect.Ptr && !v.IsNil() && v.Elem().CanSet() {
		switch v.Elem().Kind() {
		case reflect.Int, reflect.Int8, reflect.Int16, reflect.Int32, reflect.Int64, reflect.Uint, reflect.Uint8, reflect.Uint16, reflect.Uint32, reflect.Uint64,
			reflect.String, reflect.Bool, reflect.Float32, reflect.Float64:
			v.Elem().Set(reflect.Zero(v.Elem().Type()))
			again, aerr := textwire.EvaluateString(src, map[string]any{"d": val})
			fresh, ferr := textwire.EvaluateString(src, map[string]any{"d": reflect.Zero(v.Elem().Type()).Interface()})
			if (aerr == nil) != (ferr == nil) || again != fresh {
				res.Status, res.Kind = "viol", "stale-pointer"
				res.Msg = fmt.Sprintf("after the pointee was set to its zero value the same pointer renders (%q, %v); the zero value itself renders (%q, %v)", again, aerr, fresh, ferr)
				return res
			}
			return res // (the data was changed on purpose: skip the unchanged-data comparison)
		}
	}
	// the caller's data is never modified by rendering
	if len(data) != 2 || data["other"] != 1 {
		res.Status, res.Kind, res.Msg = "viol", "data-modified", "the data map itself was changed"
		return res
	}
	if !hasID && !reflect.DeepEqual(data["d"], ref) {
		res.Status, res.Kind, res.Msg = "viol", "data-modified", fmt.Sprintf("data changed: %#v", data["d"])
	}
	return res
}

func compactJSON(raw json.RawMessage) string {
	var c struct {
		G json.RawMessage `json:"g"`
	}
	json.Unmarshal(raw, &c)
	s := string(c.G)
	if len(s) > 300 {
		s = s[:300] + "..."
	}
	return s
}

func init() { families["data"] = dataFamily }
