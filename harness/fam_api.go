package main

import (
	"bufio"
	"encoding/json"
	"flag"
	"fmt"
	"html"
	"math/rand"
	"net/http/httptest"
	"os"
	"path/filepath"
	"reflect"
	"runtime"
	"runtime/debug"
	"strconv"
	"strings"
	"sync"
	"sync/atomic"
	"time"

	textwire "github.com/textwire/textwire/v2"
	"github.com/textwire/textwire/v2/config"
)

// ---- the fixed tree of machine A (spec/TwApi.tla): pages ok / bad / missing, the custom error page ----
var apiFiles = []treeFile{
	{Name: "layouts/main", Src: "<h>@reserve(\"title\")</h><b>@reserve(\"content\")</b><p>100% %d %s %%</p>"},
	{Name: "components/c", Src: "[{{ n }}:@slot]"},
	{Name: "ok", Src: "@use(\"~main\")@insert(\"title\", who.upper() + items[0].str())@insert(\"content\")@each(x in items)({{ x }}{{ loop.last ? \"\" : \",\" }})@end" +
		"@component(\"~c\", {n: who})@slot{{ who.upper() }}@end@end@component(\"~c\", {n: 2})@slot second {{ items[1] }}@end@end@end"},
	{Name: "ok2", Src: "@use(\"~main\")@insert(\"content\")second page of {{ who }} {{ \"<i>&amp;&</i>\" }}@component(\"~c\", {n: 2})@end@insert(\"title\", \"Second\")"},
	{Name: "bare", Src: "@use(\"~main\")a page of the layout that inserts nothing"},
	{Name: "bad", Src: "PARTIAL-OUTPUT-MARKER {{ who }}\n{{ items[0] / 0 }} after"},
	// the custom error page is a page of its own: it is rendered without the failed request's data (it binds names the data
	// maps of the operations bind with other types, and reads none of them)
	{Name: "err", Src: "<custom>error page 50% %v{{ who = 7 }}{{ items = \"none\" }}[{{ who }}{{ items }}]</custom>"},
	{Name: "components/boom", Src: "PARTIAL-OUTPUT-MARKER in component {{ n / 0 }}"},
	{Name: "layouts/boom", Src: "PARTIAL-OUTPUT-MARKER in layout @reserve(\"content\") {{ items[0] / 0 }}"},
	{Name: "bad-in-component", Src: "PARTIAL-OUTPUT-MARKER before @component(\"~boom\", {n: 1}) after"},
	{Name: "bad-in-layout", Src: "@use(\"~boom\")@insert(\"content\")PARTIAL-OUTPUT-MARKER insert@end"},
	{Name: "bad-at-start", Src: "{{ items[0] / 0 }} PARTIAL-OUTPUT-MARKER never"},
	{Name: "bad-in-loop", Src: "@each(x in items)PARTIAL-OUTPUT-MARKER {{ x }} {{ 6 / (3 - x) }}@end"},
	{Name: "bad-in-slot", Src: "PARTIAL-OUTPUT-MARKER before @component(\"~c\", {n: 1})@slot in the slot {{ items[0] / 0 }} end@end@end after"},
	{Name: "bad-in-insert", Src: "@use(\"~main\")@insert(\"title\", items[0] / 0)@insert(\"content\")PARTIAL-OUTPUT-MARKER body@end"},
	{Name: "bad-in-for-cond", Src: "PARTIAL-OUTPUT-MARKER @for(i = 2; 6 / i > 1; i--)pass {{ i }} @end after"},
	{Name: "bad-in-elseif", Src: "PARTIAL-OUTPUT-MARKER @if(items[0] > 5)no@elseif(items[0] / 0 > 1)never@else other@end after"},
	{Name: "bad-in-each-else", Src: "PARTIAL-OUTPUT-MARKER @each(x in [])never@else in else {{ items[0] / 0 }}@end after"},
	{Name: "bad-in-for-else", Src: "PARTIAL-OUTPUT-MARKER @for(i = 0; i < 0; i++)never@else in else {{ items[0] / 0 }}@end after"},
	{Name: "bad-lt", Src: "PARTIAL-OUTPUT-MARKER {{ 1 < \"a&b\" }} after"}, // a message with < and quotes in it
	{Name: "bad-in-assign", Src: "PARTIAL-OUTPUT-MARKER {{ q = items[0] / 0 }} the value is never read"},
	{Name: "bad-in-array", Src: "PARTIAL-OUTPUT-MARKER {{ [who, who, items[0] / 0] }} after"},
	{Name: "bad-in-args", Src: "PARTIAL-OUTPUT-MARKER {{ [who].append(who, items[0] / 0).join(\"-\") }} after"},
	// (one key only: the printed form of a loaded program, which the state snapshots compare, lists the keys of an
	// object literal in map order)
	{Name: "bad-in-object", Src: "PARTIAL-OUTPUT-MARKER {{ {b: items[0] / 0}.b }} after"},
	{Name: "setvar", Src: "{{ total = 3 }}set:{{ total }}"},
	{Name: "getvar", Src: "get:{{ total }}"},
	{Name: "row1", Src: "row:{{ r.title }}"},
	{Name: "row2", Src: "row:{{ r.name }}{{ r.count }}"},
	{Name: "components/whoami", Src: "{{ who }}/{{ items.len() }}"},
	{Name: "static", Src: "<p>@component(\"~whoami\")</p><i>@component(\"~whoami\")</i>"},
	{Name: "layouts/nested", Src: "@use(\"~main\")<n>@reserve(\"content\")</n>"},
	{Name: "nested-use", Src: "@use(\"~nested\")@insert(\"content\")a layout that uses a layout@end"},
	{Name: "dotcase", Src: "dot:{{ u.name }}|{{ u.tags }}"},
	{Name: "poly", Src: "poly:{{ v.len() }}|{{ v }}|@if(v){{ v.len() }}@end"},
	// a page that calls custom functions, and one with a component whose argument fails although the component never reads it
	{Name: "usesfn", Src: "fn:{{ who.shout() }}|{{ items.count() }}"},
	{Name: "bad-in-unused-arg", Src: "PARTIAL-OUTPUT-MARKER @component(\"~whoami\", {unused: items[0] / 0}) after"},
	{Name: "bad-in-shadowed-arg", Src: "PARTIAL-OUTPUT-MARKER @component(\"~whoami\", {who: who.nope()}) after"},
	// a component argument that fails with one data map and is fine with the next (the page stays what it is)
	{Name: "argdep", Src: "arg:@component(\"~whoami\", {k: u.name.upper()})|@component(\"~whoami\")"},
	// a page that fails after more output than any buffer between the render and the response holds
	{Name: "bad-after-long", Src: "PARTIAL-OUTPUT-MARKER " + strings.Repeat("0123456789abcdef", 600) + "{{ x = 1 }}" + strings.Repeat("fedcba9876543210", 600) + "{{ items[0] / 0 }} after"},
	// a value behind a pointer the caller keeps and changes between calls: what is visible is the value at the time of the call
	{Name: "shared", Src: "sh:{{ sp.name }}|{{ sp.tags }}"},
	// number literals that reach ++ / -- (a loaded program is evaluated many times; a literal is the same number every time)
	{Name: "floatdec", Src: "dec:{{ p = 10.5 }}{{ p-- }}|{{ p }}|@for(x = 2.5; x > 0.0; x--){{ x }};@end|{{ n = 3 }}{{ n++ }}{{ n }}|{{ 1.5-- }}{{ 7++ }}"},
	// one template, rendered with arrays of different lengths: the loop object of every pass belongs to this render
	{Name: "lastof", Src: "last:@each(x in xs){{ loop.iter }}{{ x }}{{ loop.last ? \".\" : \",\" }}{{ loop.first ? \"^\" : \"\" }}@end|@for(i = 0; i < xs.len(); i++){{ i }}@end"},
}

// two different struct types with one name (function-local types): what a render sees of one must not depend on
// whether the other was converted before
func rowOne() any {
	type row struct{ Title string }
	return row{Title: "T1"}
}

func rowTwo() any {
	type row struct {
		Name  string
		Count int
	}
	return row{Name: "N2", Count: 2}
}

// fnMix calls every kind of built-in once (nothing random): package-level scratch state in any of them shows as a data
// race or as a result that differs from the solo run
const fnMix = `|{{ items.join("-") }}|{{ items.reverse() }}|{{ items.slice(1) }}|{{ items.append(4).len() }}|{{ items.prepend(0) }}` +
	`|{{ items.contains(2) }}|{{ items.len() }}|{{ who.upper() }}|{{ "Ab c".lower() }}|{{ "abc".last() }}|{{ "a b".trimLeft() }}|{{ "a b".trimRight() }}` +
	`|{{ "abc".reverse() }}|{{ "héllo".len() }}|{{ "ab".repeat(3) }}|{{ "a,b,c".split(",") }}|{{ "  x ".trim() }}|{{ "abc".contains("b") }}` +
	`|{{ "abc".at(-1) }}|{{ "abc".first() }}|{{ "abcdef".truncate(2) }}|{{ "ab cd".capitalize() }}|{{ "12".decimal() }}|{{ 3.5.round() }}` +
	`|{{ 3.2.ceil() }}|{{ 3.7.floor() }}|{{ -2.abs() }}|{{ 2.float() }}|{{ 2.str() }}|{{ 1234.decimal() }}|{{ 2.5.int() }}|{{ 2.5.str() }}|{{ 2.5.abs() }}|{{ 12.len() }}|{{ "<b>".raw() }}|{{ true.binary() }}` +
	`|{{ false.then("y", "n") }}|{{ {a: 1, b: [2, 3]} }}|@dump(items)|{{ items.shuffle().len() }}|{{ items.rand() > 0 }}`

// the pages contain per cent signs: what Response writes is the page, byte for byte
const okPage = "<h>BO1</h><b>(1,)(2,)(3)[Bo:BO][2: second 2]</b><p>100% %d %s %%</p>"
const customPage = "<custom>error page 50% %v[7none]</custom>"

// apiRec is a struct type every call passes; apiDataN adds a value of a struct type no earlier call has used
// (reflect.StructOf with a field named after n), a pointer and a nested map, so that every conversion path of the data
// map runs in every operation - also concurrently, with types the process has not seen before.
type apiRec struct {
	Name string
	Tags []string
}

var apiDataSeq atomic.Int64

func apiWho(n int64) string { return fmt.Sprintf("Bo%dq", n) }

func apiDataN(n int64) map[string]any {
	t := reflect.StructOf([]reflect.StructField{
		{Name: fmt.Sprintf("F%d", n), Type: reflect.TypeOf(0)},
		{Name: "Name", Type: reflect.TypeOf("")},
	})
	v := reflect.New(t).Elem()
	v.Field(0).SetInt(n)
	v.Field(1).SetString("n")
	// "who" is different in every call ("their own data"): a result that shows another call's value is not this call's
	return map[string]any{"who": apiWho(n), "items": []int{1, 2, 3}, "fresh": v.Interface(),
		"ptr": &apiRec{Name: "p", Tags: []string{"a", "b"}}, "m": map[string]any{"k": apiRec{Name: "q"}, "l": []any{1, "x"}}}
}

var apiShared = &apiRec{}

type apiCfg struct {
	Dir       string `json:"dir"`
	Ext       string `json:"ext"`
	ErrorPage string `json:"errorPage"`
	Debug     bool   `json:"debug"`
}

type apiOp struct {
	K    string `json:"k"`
	Page string `json:"page"`
}

type apiBody struct {
	Page  string   `json:"page"`
	Shows []string `json:"shows"`
}

type apiCase struct {
	Cfg     apiCfg `json:"cfg"`
	ErrPage bool   `json:"errpage"`
	Mode    string `json:"mode"`
	Ops     []struct {
		G  int   `json:"g"`
		Op apiOp `json:"op"`
	} `json:"ops"`
	Sched []struct {
		G    int    `json:"g"`
		Step string `json:"step"`
	} `json:"sched"`
	Expect json.RawMessage `json:"expect"`
	ExpOk  []bool          `json:"expok"` // the model's prediction: does operation k succeed?
}

type apiEnv struct {
	root   string
	tpl    *textwire.Template
	cfg    apiCfg
	reconf *bool // debug mode set with Configure after the load (C17: the mode at the time of the Response counts)
}

func apiSetup(cfg apiCfg, errPageExists bool) (*apiEnv, error) {
	files := []treeFile{}
	for _, f := range apiFiles {
		if f.Name == "err" && !errPageExists {
			continue
		}
		files = append(files, f)
	}
	files = append(files, treeFile{Path: "plain.tw", Src: "file:{{ who }}" + fnMix})
	// the tree of a configuration is written once per worker process and loaded anew for every case (no case changes it)
	key := fmt.Sprintf("%s|%s|%v", cfg.Dir, cfg.Ext, errPageExists)
	root, cached := apiTrees[key]
	if cached {
		if err := os.Chdir(root); err != nil {
			return nil, err
		}
	} else {
		var err error
		root, err = setupTree(files, treeCfg{Dir: cfg.Dir, Ext: cfg.Ext})
		if err != nil {
			return nil, err
		}
		apiTrees[key] = root
	}
	e := &apiEnv{root: root, cfg: cfg}
	if err := e.reload(); err != nil {
		return nil, err
	}
	return e, nil
}

var apiTrees = map[string]string{}

// (derived by hand from the page sources above; the call's own "who" is normalised to Bo)
var fixedSigs = map[apiOp]string{
	{"EvalString", "sameprintI"}: "OUT s:2|1, 2",
	{"EvalString", "sameprintS"}: "OUT s:11|[1 2]",
	{"String", "ok"}:             "OUT " + okPage,
	{"Response", "ok"}:           "OK BODY " + okPage,
	{"String", "ok2"}:            "OUT <h>Second</h><b>second page of Bo &lt;i&gt;&amp;amp;&amp;&lt;/i&gt;[2:]</b><p>100% %d %s %%</p>",
	{"String", "bare"}:           "OUT <h></h><b></b><p>100% %d %s %%</p>",
	{"String", "static"}:         "OUT <p>Bo/3</p><i>Bo/3</i>",
	{"String", "polyS"}:          "OUT poly:3|abc|3",
	{"String", "floatdec"}:       "OUT dec:9.5|10.5|2.5;1.5;0.5;|43|0.58",
	{"String", "usesfn"}:         "OUT fn:BO!|3, 0",
	{"String", "argOk"}:          "OUT arg:Bo/3|Bo/3",
	{"String", "shared"}:         "OUT sh:Bo|N",
	{"String", "lastA"}:          "OUT last:1a.^|0",
	{"String", "lastB"}:          "OUT last:1a,^2b.|01",
	{"String", "lastC"}:          "OUT last:1a,^2b,3c.|012",
	{"String", "polyA"}:          "OUT poly:2|x, y|2",
	{"String", "polyI"}:          "OUT poly:4|1234|4",
	{"Response", "polyA"}:        "OK BODY poly:2|x, y|2",
	{"Response", "polyS"}:        "OK BODY poly:3|abc|3",
	{"String", "dotS"}:           "OUT dot:struct|s",
	{"String", "dotM"}:           "OUT dot:map|m",
	{"String", "row1"}:           "OUT row:T1",
	{"String", "row2"}:           "OUT row:N22",
	{"EvalString", "customfn"}:   "OUT s:BO!|3, 2|X!",
	{"EvalString", "row1"}:       "OUT s:T1",
	{"EvalString", "row2"}:       "OUT s:N22",
	{"String", "setvar"}:         "OUT set:3",
	{"EvalString", "setvar"}:     "OUT s:s",
}

// close leaves the tree in place for the next case of this worker (the scratch directory is removed with the run).
func (e *apiEnv) close() { os.Chdir("/") }

func (e *apiEnv) reload() error {
	textwire.VerifReset()
	// "after templates are loaded and custom functions registered": two healthy functions and one whose result cannot be
	// converted (its call fails; the calls of the others, before and after, are not its business)
	textwire.RegisterStrFunc("shout", func(s string, args ...any) string { return strings.ToUpper(s) + "!" })
	textwire.RegisterArrFunc("count", func(a []any, args ...any) []any { return []any{len(a), len(args)} })
	textwire.RegisterArrFunc("chanfn", func(a []any, args ...any) []any { return []any{1, make(chan int)} })
	tpl, err := textwire.NewTemplate(&config.Config{TemplateDir: e.cfg.Dir, TemplateExt: e.cfg.Ext,
		ErrorPagePath: e.cfg.ErrorPage, DebugMode: e.cfg.Debug})
	if err != nil {
		return fmt.Errorf("loading the API tree failed: %v", err)
	}
	e.tpl = tpl
	if e.reconf != nil {
		// the application changes the debug mode after the templates were loaded (Configure merges: empty fields stay)
		textwire.Configure(&config.Config{DebugMode: *e.reconf})
	}
	return nil
}

// run executes one operation on the real code and returns its signature (root path normalised).
func (e *apiEnv) run(o apiOp) (sig string, body string, ok bool) {
	dataN := apiDataSeq.Add(1)
	data := apiDataN(dataN)
	if o.Page == "setvar" || o.Page == "getvar" {
		data = nil // renders without data: top-level names must not survive the call
	}
	rowOf := func() any {
		if o.Page == "row1" {
			return rowOne()
		}
		return rowTwo()
	}
	if o.Page == "row1" || o.Page == "row2" {
		data["r"] = rowOf()
	}
	// one template, rendered with a receiver of another type than in the call before
	page := o.Page
	switch o.Page {
	case "polyS":
		page, data["v"] = "poly", "abc"
	case "polyA":
		page, data["v"] = "poly", []string{"x", "y"}
	case "polyI":
		page, data["v"] = "poly", 1234
	case "shared": // (sequential histories only: the harness itself writes through the pointer)
		apiShared.Name, apiShared.Tags = apiWho(dataN), []string{fmt.Sprint(dataN % 7)}
		page, data["sp"] = "shared", apiShared
		defer func() { sig = strings.Replace(sig, "|"+fmt.Sprint(dataN%7), "|N", 1) }()
	case "argOk":
		page, data["u"] = "argdep", map[string]any{"name": "n"}
	case "argBad":
		page, data["u"] = "argdep", 7
	case "okbad": // the ok page with a value no template can see: this call fails, the page stays renderable
		page, data["ch"] = "ok", make(chan int)
	case "lastA":
		page, data["xs"] = "lastof", []string{"a"}
	case "lastB":
		page, data["xs"] = "lastof", []string{"a", "b"}
	case "lastC":
		page, data["xs"] = "lastof", []any{"a", "b", "c"}
	case "dotS": // a struct with exported fields, reached through the lower-cased first letter
		page, data["u"] = "dotcase", apiRec{Name: "struct", Tags: []string{"s"}}
	case "dotM": // a map with exactly these keys
		page, data["u"] = "dotcase", map[string]any{"name": "map", "tags": []any{"m"}}
	}
	// the root path and this call's own "who" are normalised; any other call's "who" stays visible in the signature
	norm := func(s string) string { return strings.ReplaceAll(s, e.root, "$ROOT") }
	defer func() {
		own := apiWho(dataN)
		fix := func(s string) string {
			return strings.ReplaceAll(strings.ReplaceAll(s, own, "Bo"), strings.ToUpper(own), "BO")
		}
		sig, body = fix(sig), fix(body)
	}()
	switch o.K {
	case "String":
		out, ferr := e.tpl.String(page, data)
		if ferr != nil {
			sig = fmt.Sprintf("ERR line=%d path=%s msg=%s", ferr.Line(), norm(ferr.Filepath()), norm(ferr.Message()))
		} else {
			sig, ok = "OUT "+out, true
		}
	case "Response":
		w := httptest.NewRecorder()
		err := e.tpl.Response(w, page, data)
		body = w.Body.String()
		if err != nil {
			sig = "ERR " + norm(err.Error()) + " BODY " + norm(body)
		} else {
			sig, ok = "OK BODY "+body, true
		}
	case "EvalString":
		src := "s:{{ who }}{{ items }}" + fnMix
		switch o.Page {
		case "ok":
		case "illegal": // an illegal character: this evaluation fails at parse time, and only this one
			src = "s:{{ 1 ~ 2 }}"
		case "customfn": // custom functions, healthy
			src = "s:{{ who.shout() }}|{{ items.count(1, 2) }}|{{ \"x\".shout() }}"
		case "chanfn": // a custom function whose result cannot be converted: this evaluation fails
			src = "s:{{ who.shout() }}{{ items.chanfn() }}"
		case "setvar":
			src = "{{ total = \"s\" }}s:{{ total }}"
		case "getvar":
			src = "s:{{ total }}"
		case "sameprintI", "sameprintS":
			// the same source with data that print alike under %v but are different values: 1 and "1"
			src = "s:{{ v + v }}|{{ w }}"
			data = map[string]any{"v": 1, "w": []any{1, 2}}
			if o.Page == "sameprintS" {
				data = map[string]any{"v": "1", "w": "[1 2]"}
			}
			dataN = -1
		case "row1":
			src = "s:{{ r.title }}"
		case "row2":
			src = "s:{{ r.name }}{{ r.count }}"
		default:
			src = "s:{{ who }}@dump(items){{ items[0] / 0 }}"
		}
		out, err := textwire.EvaluateString(src, data)
		if err != nil {
			sig = "ERR " + norm(err.Error())
		} else {
			sig, ok = "OUT "+out, true
		}
	case "EvalFile":
		out, err := textwire.EvaluateFile(filepath.Join(e.root, "plain.tw"), data)
		if err != nil {
			sig = "ERR " + norm(err.Error())
		} else {
			sig, ok = "OUT "+out, true
		}
	default:
		sig = "unknown op " + o.K
	}
	if o.Page == "row1" || o.Page == "row2" {
		delete(data, "r")
	}
	if xs, has := data["xs"]; has {
		want := map[string]any{"lastA": []string{"a"}, "lastB": []string{"a", "b"}, "lastC": []any{"a", "b", "c"}}[o.Page]
		if !reflect.DeepEqual(xs, want) {
			sig += " DATA-MODIFIED"
		}
		delete(data, "xs")
	}
	delete(data, "v")
	delete(data, "u")
	delete(data, "ch")
	delete(data, "sp")
	if data != nil && dataN >= 0 && !reflect.DeepEqual(data, apiDataN(dataN)) {
		sig += " DATA-MODIFIED"
	}
	return
}

// solo: the result of the operation issued first in a fresh state (C16's oracle).
func (e *apiEnv) solo(o apiOp) (string, error) {
	if err := e.reload(); err != nil {
		return "", err
	}
	s, _, _ := e.run(o)
	return s, nil
}

func stateSig(e *apiEnv) string {
	st := textwire.VerifSnapshot()
	b, _ := json.Marshal(st)
	p, _ := json.Marshal(textwire.VerifPrograms(e.tpl))
	return string(b) + string(p)
}

// ---- goroutine gates ----
func goid() int {
	var buf [64]byte
	n := runtime.Stack(buf[:], false)
	f := strings.Fields(string(buf[:n]))
	id, _ := strconv.Atoi(f[1])
	return id
}

type gateSched struct {
	mu      sync.Mutex
	parked  map[int]chan struct{} // model goroutine -> release channel while parked at a critical gate
	arrived chan int              // model goroutine id on arrival at a critical gate
	ids     map[int]int           // runtime goid -> model goroutine
	inFile  map[int]bool          // inside EvaluateFile: the nested EvaluateString write is the same model step
}

func (s *gateSched) gate(point string) {
	s.mu.Lock()
	g, known := s.ids[goid()]
	if !known {
		s.mu.Unlock()
		return
	}
	critical := false
	switch point {
	case "getFullPath.readMode":
		critical = true
	case "EvaluateFile.writeMode":
		critical = true
		s.inFile[g] = true
	case "EvaluateString.writeMode":
		critical = !s.inFile[g]
	case "EvaluateFile.exit":
		s.inFile[g] = false
	}
	if !critical {
		s.mu.Unlock()
		return
	}
	ch := make(chan struct{})
	s.parked[g] = ch
	s.mu.Unlock()
	s.arrived <- g
	<-ch
}

func apiFamily(raw json.RawMessage) Result {
	var c apiCase
	if err := json.Unmarshal(raw, &c); err != nil {
		return Result{ID: caseID(raw), Status: "skip", Msg: err.Error()}
	}
	id := fmt.Sprintf("%s cfg=%+v errpage=%v ops=%v sched=%v", c.Mode, c.Cfg, c.ErrPage, c.Ops, c.Sched)
	res := Result{ID: id, Status: "ok", Tags: []string{c.Mode}, Stats: map[string]int{"nontrivial": 1}}
	e, err := apiSetup(c.Cfg, c.ErrPage)
	if err != nil {
		res.Status, res.Msg = "skip", err.Error()
		return res
	}
	defer e.close()
	if len(c.Ops) > 0 && c.Ops[0].Op.K == "Configure" {
		on := c.Ops[0].Op.Page == "on"
		e.reconf = &on
		c.Cfg.Debug = on
		c.Ops = c.Ops[1:]
		if len(c.ExpOk) > 0 {
			c.ExpOk = c.ExpOk[1:]
		}
	}
	solos := map[apiOp]string{}
	for _, o := range c.Ops {
		if _, ok := solos[o.Op]; !ok {
			s, err := e.solo(o.Op)
			if err != nil {
				res.Status, res.Msg = "skip", err.Error()
				return res
			}
			solos[o.Op] = s
		}
	}
	if err := e.reload(); err != nil {
		res.Status, res.Msg = "skip", err.Error()
		return res
	}
	switch c.Mode {
	case "history", "response":
		base := stateSig(e)
		for i, o := range c.Ops {
			sig, body, ok := e.run(o.Op)
			if i < len(c.ExpOk) && ok != c.ExpOk[i] {
				res.Status, res.Kind = "viol", "history-dependence"
				res.Msg = fmt.Sprintf("operation %d %v returned %q; the specification says it %s whatever ran before", i+1, o.Op, sig,
					map[bool]string{true: "succeeds", false: "fails"}[c.ExpOk[i]])
				res.Tags = append(res.Tags, o.Op.K+":"+o.Op.Page)
				return res
			}
			// operations whose result does not depend on the per-call data have ONE right answer, known beforehand (the
			// solo run of the same process may itself be served from state an earlier solo run left behind)
			if want, fixed := fixedSigs[o.Op]; fixed && sig != want {
				res.Status, res.Kind = "viol", "history-dependence"
				res.Msg = fmt.Sprintf("operation %d %v returned %q, the right answer is %q", i+1, o.Op, sig, want)
				res.Tags = append(res.Tags, o.Op.K+":"+o.Op.Page)
				return res
			}
			if sig != solos[o.Op] {
				res.Status, res.Kind = "viol", "history-dependence"
				res.Msg = fmt.Sprintf("operation %d %v returned %q; issued first in a fresh state it returns %q", i+1, o.Op, sig, solos[o.Op])
				res.Tags = append(res.Tags, o.Op.K+":"+o.Op.Page)
				return res
			}
			if st := stateSig(e); st != base {
				res.Status, res.Kind = "viol", "state-changed"
				res.Msg = fmt.Sprintf("operation %d %v changed the shared state: %s -> %s", i+1, o.Op, base, st)
				res.Tags = append(res.Tags, o.Op.K+":"+o.Op.Page)
				return res
			}
			if o.Op.K == "Response" && c.Mode == "response" {
				if k, m := judgeBody(c, e, o.G, o.Op.Page, body, ok); k != "" {
					res.Status, res.Kind, res.Msg = "viol", k, m
					res.Tags = append(res.Tags, o.Op.K+":"+o.Op.Page)
					return res
				}
			}
		}
	case "interleave":
		s := &gateSched{parked: map[int]chan struct{}{}, arrived: make(chan int, 64), ids: map[int]int{}, inFile: map[int]bool{}}
		textwire.VerifGate = s.gate
		defer func() { textwire.VerifGate = nil }()
		results := map[int]string{}
		var rmu sync.Mutex
		unrealised := false
		done := make(chan int, len(c.Ops))
		for _, o := range c.Ops {
			o := o
			ready := make(chan struct{})
			go func() {
				s.mu.Lock()
				s.ids[goid()] = o.G
				s.mu.Unlock()
				close(ready)
				sig, _, _ := e.run(o.Op)
				rmu.Lock()
				results[o.G] = sig
				rmu.Unlock()
				done <- o.G
			}()
			<-ready
			// let the goroutine run to its first critical gate (or to completion)
			if !waitParkedOrDone(s, done, o.G, results, &rmu) {
				// the goroutine neither reached a gate nor finished: it waits for a goroutine that is parked (a lock, a
				// shared computation). Waiting is no fault; the schedule cannot be enforced on this implementation, so the
				// gates are opened and only the results are judged.
				unrealised = true
			}
		}
		for _, st := range c.Sched {
			if unrealised {
				break
			}
			if st.Step != "readMode" && st.Step != "writeMode" {
				continue
			}
			s.mu.Lock()
			ch, parked := s.parked[st.G]
			delete(s.parked, st.G)
			s.mu.Unlock()
			if !parked {
				// the implementation has no shared access where the model has one: nothing to order
				continue
			}
			close(ch)
			if !waitParkedOrDone(s, done, st.G, results, &rmu) {
				unrealised = true
			}
		}
		if unrealised {
			res.Stats["unrealised-schedule"] = 1
		}
		// release anything still parked (extra gates the model does not know)
		for tries := 0; tries < 1500; tries++ {
			rmu.Lock()
			n := len(results)
			rmu.Unlock()
			if n == len(c.Ops) {
				break
			}
			s.mu.Lock()
			for g, ch := range s.parked {
				close(ch)
				delete(s.parked, g)
			}
			s.mu.Unlock()
			time.Sleep(2 * time.Millisecond)
		}
		for _, o := range c.Ops {
			rmu.Lock()
			got, fin := results[o.G]
			rmu.Unlock()
			if !fin {
				res.Status, res.Kind, res.Msg = "viol", "hang", fmt.Sprintf("goroutine %d never finished", o.G)
				return res
			}
			if got != solos[o.Op] {
				res.Status, res.Kind = "viol", "interleaving-dependence"
				res.Msg = fmt.Sprintf("goroutine %d %v returned %q under schedule %v; alone it returns %q", o.G, o.Op, got, c.Sched, solos[o.Op])
				res.Tags = append(res.Tags, o.Op.K+":"+o.Op.Page)
				return res
			}
		}
	default:
		res.Status, res.Msg = "skip", "unknown mode "+c.Mode
	}
	return res
}

func waitParkedOrDone(s *gateSched, done chan int, g int, results map[int]string, rmu *sync.Mutex) bool {
	deadline := time.After(2 * time.Second)
	for {
		select {
		case a := <-s.arrived:
			if a == g {
				return true
			}
		case d := <-done:
			if d == g {
				return true
			}
		case <-deadline:
			return false
		}
	}
}

// judgeBody: C17 — what Response wrote, against the model's selection table.
func judgeBody(c apiCase, e *apiEnv, g int, page string, body string, ok bool) (kind, msg string) {
	var exp map[string]apiBody
	var expSeq []apiBody
	var want apiBody
	if json.Unmarshal(c.Expect, &exp) == nil && len(exp) > 0 {
		want = exp[strconv.Itoa(g)]
	} else if json.Unmarshal(c.Expect, &expSeq) == nil && g >= 1 && g <= len(expSeq) {
		want = expSeq[g-1]
	}
	class := "other"
	switch {
	case body == okPage:
		class = "rendered"
	case body == customPage:
		class = "custom"
	case body == "":
		class = "empty"
	default:
		class = "builtin" // any other page: the wording of the built-in page is not fixed by the property
	}
	if want.Page != "" && want.Page != "n/a" && class != want.Page {
		return "wrong-body", fmt.Sprintf("Response wrote the %s page, the configuration selects the %s page (body %q)", class, want.Page, clip(body, 200))
	}
	if ok != (class == "rendered") {
		return "wrong-body", fmt.Sprintf("Response returned ok=%v but wrote the %s page", ok, class)
	}
	if strings.Contains(body, "PARTIAL-OUTPUT-MARKER") {
		return "partial-output", "the body contains output of the failed page"
	}
	leaksPath := strings.Contains(body, e.root) || strings.Contains(body, "/"+strings.Trim(c.Cfg.Dir, "/")+"/")
	// the message is the one String reports for this page, whatever its wording
	msgText := ""
	if _, ferr := e.tpl.String(page, apiDataN(0)); ferr != nil {
		msgText = ferr.Message()
	}
	// shown (debug on): the message as it is, byte for byte; leaked (debug off): also in an HTML-escaped form
	showsMsg := msgText != "" && strings.Contains(body, msgText)
	leaksMsg := msgText != "" && (showsMsg || strings.Contains(html.UnescapeString(body), msgText))
	if !c.Cfg.Debug && (leaksPath || leaksMsg) {
		return "leak", fmt.Sprintf("debug mode is off but the body shows path=%v message=%v", leaksPath, leaksMsg)
	}
	if c.Cfg.Debug && class == "builtin" && len(want.Shows) > 0 && !(leaksPath && showsMsg) {
		return "debug-page-incomplete", fmt.Sprintf("debug mode is on but the body shows path=%v message=%v (%q)", leaksPath, showsMsg, msgText)
	}
	return "", ""
}

func clip(s string, n int) string {
	if len(s) > n {
		return s[:n] + "..."
	}
	return s
}

// cmdSolos prints the result of every data-independent successful operation in a fresh state (used once to pin fixedSigs).
func cmdSolos(args []string) int {
	e, err := apiSetup(apiCfg{"t", ".tw", "", false}, true)
	if err != nil {
		fmt.Fprintln(os.Stderr, err)
		return 2
	}
	defer e.close()
	for _, o := range []apiOp{{"String", "ok"}, {"String", "ok2"}, {"String", "bare"}, {"String", "static"}, {"String", "polyS"}, {"String", "polyA"},
		{"String", "polyI"}, {"String", "dotS"}, {"String", "dotM"}, {"String", "row1"}, {"String", "row2"}, {"EvalString", "row1"}, {"EvalString", "row2"},
		{"String", "setvar"}, {"EvalString", "setvar"}, {"Response", "ok"}, {"Response", "polyA"}, {"Response", "polyS"}} {
		s, _ := e.solo(o)
		fmt.Printf("\t{%q, %q}: %q,\n", o.K, o.Page, s)
	}
	return 0
}

func init() {
	extraCmds["solos"] = cmdSolos
	families["api"] = apiFamily
	extraCmds["race"] = cmdRace
}

// cmdRace: free-running concurrent executions of the operation multisets (built with -race). Results are compared
// with the solo results; race reports go to the GORACE log files inspected by the driver.
func cmdRace(args []string) int {
	fs := flag.NewFlagSet("race", flag.ExitOnError)
	out := fs.String("out", "", "")
	seconds := fs.Int("seconds", 10, "")
	fs.Parse(args)
	seed, _ := strconv.ParseInt(os.Getenv("VERIF_SEED"), 10, 64)
	rng := rand.New(rand.NewSource(seed))
	f, _ := os.Create(*out)
	defer f.Close()
	w := bufio.NewWriter(f)
	defer w.Flush()
	allOps := []apiOp{{"String", "ok"}, {"String", "ok2"}, {"String", "ok2"}, {"String", "bare"}, {"String", "static"}, {"String", "polyS"}, {"String", "polyA"}, {"String", "polyI"},
		{"String", "lastA"}, {"String", "lastC"}, {"String", "floatdec"}, {"EvalString", "illegal"}, {"EvalString", "customfn"}, {"EvalString", "chanfn"}, {"String", "usesfn"},
		{"String", "bad"}, {"String", "missing"}, {"Response", "ok"}, {"Response", "bad"},
		{"Response", "missing"}, {"EvalString", "ok"}, {"EvalString", "bad"}, {"EvalFile", "ok"}}
	cfgs := []apiCfg{{"t", ".tw", "", false}, {"t", ".tw", "err", false}, {"t", ".tw", "", true}, {"t", ".tw", "err", true}}
	deadline := time.Now().Add(time.Duration(*seconds) * time.Second)
	rounds, bad := 0, 0
	for time.Now().Before(deadline) {
		cfg := cfgs[rounds%len(cfgs)]
		runtime.GOMAXPROCS([]int{1, 2, 16}[rounds%3])
		G := []int{2, 8, 32}[(rounds/3)%3]
		e, err := apiSetup(cfg, true)
		if err != nil {
			fmt.Fprintln(os.Stderr, err)
			return 2
		}
		solos := map[apiOp]string{}
		var mu sync.Mutex
		hung := func(what string) int {
			mu.Lock()
			defer mu.Unlock()
			for _, r := range []Result{
				{ID: fmt.Sprintf("stress round %d cfg=%+v", rounds, cfg), Status: "viol", Kind: "hang", Msg: what, Tags: []string{"stress", "hang"}},
				{ID: "stress-summary", Status: "ok", Stats: map[string]int{"rounds": rounds, "mismatches": bad + 1}}} {
				b, _ := json.Marshal(r)
				w.Write(b)
				w.WriteByte('\n')
			}
			w.Flush()
			return 0
		}
		// (the operations run alone first, one after the other: a call that never returns there is reported like one in a round)
		soloDone := make(chan struct{})
		var soloOp apiOp
		go func() {
			for _, o := range allOps {
				mu.Lock()
				soloOp = o
				mu.Unlock()
				sg, _ := e.solo(o)
				mu.Lock()
				solos[o] = sg
				mu.Unlock()
			}
			close(soloDone)
		}()
		select {
		case <-soloDone:
		case <-time.After(60 * time.Second):
			mu.Lock()
			o := soloOp
			mu.Unlock()
			return hung(fmt.Sprintf("%v, issued alone after the operations before it in the list, did not return within 60 s", o))
		}
		e.reload()
		var wg sync.WaitGroup
		for g := 0; g < G; g++ {
			ops := make([]apiOp, 6)
			for i := range ops {
				ops[i] = allOps[rng.Intn(len(allOps))]
			}
			noise := rng.Intn(3)
			wg.Add(1)
			go func() {
				defer wg.Done()
				var cur apiOp
				defer func() {
					// a panic of the real code in a concurrent call is its behaviour, not a failure of the harness
					if r := recover(); r != nil {
						mu.Lock()
						bad++
						b, _ := json.Marshal(Result{ID: fmt.Sprintf("stress round %d cfg=%+v panic in %v", rounds, cfg, cur), Status: "viol", Kind: "panic",
							Site: siteOf(string(debug.Stack())), Msg: fmt.Sprintf("%v panicked in a concurrent run: %v", cur, r), Tags: []string{"stress", cur.K + ":" + cur.Page}})
						w.Write(b)
						w.WriteByte('\n')
						mu.Unlock()
					}
				}()
				for _, o := range ops {
					cur = o
					for k := 0; k < noise; k++ {
						runtime.Gosched()
					}
					sig, _, _ := e.run(o)
					if sig != solos[o] {
						mu.Lock()
						bad++
						b, _ := json.Marshal(Result{ID: fmt.Sprintf("stress round %d cfg=%+v", rounds, cfg), Status: "viol", Kind: "interleaving-dependence",
							Msg: fmt.Sprintf("%v returned %q in a concurrent run; alone it returns %q", o, sig, solos[o]), Tags: []string{"stress", o.K + ":" + o.Page}})
						w.Write(b)
						w.WriteByte('\n')
						mu.Unlock()
					}
				}
			}()
		}
		// calls that never return are the implementation's behaviour too (a lock that is never released): a round that
		// has not finished after a minute - its calls take milliseconds - is reported, and the run ends there
		finished := make(chan struct{})
		go func() { wg.Wait(); close(finished) }()
		select {
		case <-finished:
		case <-time.After(60 * time.Second):
			return hung("concurrent calls of the rendering entry points did not return within 60 s (a round takes milliseconds)")
		}
		e.close()
		rounds++
	}
	b, _ := json.Marshal(Result{ID: "stress-summary", Status: "ok", Stats: map[string]int{"rounds": rounds, "mismatches": bad}})
	w.Write(b)
	w.WriteByte('\n')
	return 0
}
