// twh — conformance harness binding the TLA+ specification in /verif/spec to
// the textwire implementation in /repo (built with -tags verif).
//
//	twh run   -family F -cases in.ndjson -out out.ndjson [-workers N] [-timeout ms]
//	twh worker -family F          (child: one case per stdin line, one result per stdout line)
//	twh lextrace -in inputs.ndjson -out trace.ndjson
package main

import (
	"fmt"
	"os"
)

func main() {
	if len(os.Args) < 2 {
		fmt.Fprintln(os.Stderr, "usage: twh run|worker|... [flags]")
		os.Exit(2)
	}
	switch os.Args[1] {
	case "run":
		os.Exit(cmdRun(os.Args[2:]))
	case "worker":
		os.Exit(cmdWorker(os.Args[2:]))
	default:
		if f, ok := extraCmds[os.Args[1]]; ok {
			os.Exit(f(os.Args[2:]))
		}
		fmt.Fprintln(os.Stderr, "unknown command", os.Args[1])
		os.Exit(2)
	}
}

var extraCmds = map[string]func([]string) int{}
