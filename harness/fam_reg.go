package main

import (
	"encoding/json"
	"fmt"
	"reflect"
	"sort"
	"strings"

	textwire "github.com/textwire/textwire/v2"
	"github.com/textwire/textwire/v2/config"
)

type regOp struct {
	Op     string      `json:"op"`
	T      string      `json:"t"`
	N      string      `json:"n"`
	ID     int         `json:"id"`
	Ok     bool        `json:"ok"`
	OnVar  bool        `json:"onVar"`
	ViaTpl bool        `json:"viaTpl"`
	Expect expectation `json:"expect"`
}

type regCase struct {
	Hist []regOp `json:"hist"`
	T1   string  `json:"t1"`
	T2   string  `json:"t2"`
}

var recvLit = map[string]string{"str": `"ab"`, "arr": `[1, 2]`, "int": `(0 - 3)`, "float": `2.5`, "bool": `true`}

func recvVal(t string) any {
	switch t {
	case "str":
		return "ab"
	case "arr":
		return []any{1, 2}
	case "int":
		return -3
	case "float":
		return 2.5
	}
	return true
}

func register(t, name string, id int) error {
	switch t {
	case "str":
		return textwire.RegisterStrFunc(name, func(s string, args ...any) string { return fmt.Sprintf("R%d", id) })
	case "arr":
		return textwire.RegisterArrFunc(name, func(a []any, args ...any) []any { return []any{id, "x"} })
	case "int":
		return textwire.RegisterIntFunc(name, func(i int, args ...any) int { return 100 + id })
	case "float":
		return textwire.RegisterFloatFunc(name, func(f float64, args ...any) float64 { return float64(id) + 0.5 })
	case "bool":
		return textwire.RegisterBoolFunc(name, func(b bool, args ...any) bool { return id%2 == 1 })
	}
	return fmt.Errorf("unknown type %s", t)
}

func regFamily(raw json.RawMessage) Result {
	var c regCase
	if err := json.Unmarshal(raw, &c); err != nil {
		return Result{ID: caseID(raw), Status: "skip", Msg: err.Error()}
	}
	var idb strings.Builder
	for _, o := range c.Hist {
		fmt.Fprintf(&idb, "%s(%s,%s,var=%v,tpl=%v) ", o.Op, o.T, o.N, o.OnVar, o.ViaTpl)
	}
	res := Result{ID: idb.String(), Status: "ok", Stats: map[string]int{"nontrivial": 1}}
	textwire.VerifReset()
	var tpl *textwire.Template
	var root string
	defer func() {
		if root != "" {
			cleanupTree(root)
		}
	}()
	for i, o := range c.Hist {
		switch o.Op {
		case "reg":
			err := register(o.T, o.N, o.ID)
			if (err == nil) != o.Ok {
				res.Status, res.Kind = "viol", "wrong-registration-result"
				res.Msg = fmt.Sprintf("step %d: Register(%s, %q) returned %v, want success=%v", i+1, o.T, o.N, err, o.Ok)
				return res
			}
		case "load":
			var files []treeFile
			// only the templates this history calls (the whole history is known here)
			used := map[string]bool{}
			for _, h := range c.Hist {
				if h.Op == "call" {
					used[h.T+"/"+h.N] = true
				}
			}
			for _, t := range []string{c.T1, c.T2} {
				for _, n := range []string{"f", "g", "upper", "len", "abs", "floor", "binary"} {
					if !used[t+"/"+n] {
						continue
					}
					lit, vr := "{{ "+recvLit[t]+"."+n+"() }}", "{{ v."+n+"() }}"
					files = append(files, treeFile{Name: fmt.Sprintf("p-%s-%s-lit", t, n), Src: lit},
						treeFile{Name: fmt.Sprintf("p-%s-%s-var", t, n), Src: vr},
						// the same call inside a component file and inside a slot body passed to a component
						treeFile{Name: fmt.Sprintf("components/c-%s-%s-lit", t, n), Src: lit},
						treeFile{Name: fmt.Sprintf("components/c-%s-%s-var", t, n), Src: vr},
						treeFile{Name: fmt.Sprintf("pc-%s-%s-lit", t, n), Src: fmt.Sprintf("@component(\"~c-%s-%s-lit\")", t, n)},
						treeFile{Name: fmt.Sprintf("pc-%s-%s-var", t, n), Src: fmt.Sprintf("@component(\"~c-%s-%s-var\", {v: v})", t, n)},
						treeFile{Name: fmt.Sprintf("ps-%s-%s-lit", t, n), Src: "@component(\"~slot\")@slot" + lit + "@end@end"},
						treeFile{Name: fmt.Sprintf("ps-%s-%s-var", t, n), Src: "@component(\"~slot\")@slot" + vr + "@end@end"})
				}
			}
			files = append(files, treeFile{Name: "components/slot", Src: "@slot"})
			if root != "" {
				cleanupTree(root)
			}
			var err error
			root, err = setupTree(files, treeCfg{Dir: "t", Ext: ".tw"})
			if err != nil {
				res.Status, res.Msg = "skip", err.Error()
				return res
			}
			before := textwire.VerifSnapshot().Funcs
			tpl, err = textwire.NewTemplate(&config.Config{TemplateDir: "t", TemplateExt: ".tw"})
			if err != nil {
				res.Status, res.Kind, res.Msg = "viol", "load-failed", err.Error()
				return res
			}
			if after := textwire.VerifSnapshot().Funcs; !reflect.DeepEqual(before, after) {
				res.Status, res.Kind = "viol", "registry-changed-by-load"
				res.Msg = fmt.Sprintf("NewTemplate changed the registry: %v -> %v", before, after)
				return res
			}
		case "call":
			form := "lit"
			var data map[string]any
			if o.OnVar {
				form = "var"
				data = map[string]any{"v": recvVal(o.T)}
			}
			var out string
			var err error
			if o.ViaTpl && tpl != nil {
				// in the page itself, inside a component file, inside a slot body: one expectation for all three
				for _, where := range []string{"pc", "ps", "p"} {
					s, fe := tpl.String(fmt.Sprintf("%s-%s-%s-%s", where, o.T, o.N, form), data)
					out, err = s, nil
					if fe != nil {
						err = fe.Error()
					}
					sub := Result{Status: "ok", Stats: map[string]int{}}
					judgeRender(&sub, o.Expect, out, err)
					if sub.Status != "ok" {
						res.Status, res.Kind = "viol", sub.Kind
						res.Msg = fmt.Sprintf("step %d: call %s.%s (var=%v) in a loaded template (%s: p = page, pc = component file, ps = slot body): %s",
							i+1, o.T, o.N, o.OnVar, where, sub.Msg)
						res.Tags = []string{o.T, "call", where}
						return res
					}
				}
			} else {
				src := "{{ " + recvLit[o.T] + "." + o.N + "() }}"
				if o.OnVar {
					src = "{{ v." + o.N + "() }}"
				}
				out, err = textwire.EvaluateString(src, data)
			}
			exp := o.Expect
			sub := Result{Status: "ok", Stats: map[string]int{}}
			judgeRender(&sub, exp, out, err)
			if sub.Status != "ok" {
				res.Status, res.Kind = "viol", sub.Kind
				res.Msg = fmt.Sprintf("step %d: call %s.%s (var=%v, template=%v): %s", i+1, o.T, o.N, o.OnVar, o.ViaTpl, sub.Msg)
				res.Tags = []string{o.T, "call"}
				return res
			}
		}
	}
	// the registry holds exactly the names registered successfully
	want := map[string][]string{"str": {}, "arr": {}, "int": {}, "float": {}, "bool": {}}
	for _, o := range c.Hist {
		if o.Op == "reg" && o.Ok {
			want[o.T] = append(want[o.T], o.N)
		}
	}
	for _, v := range want {
		sort.Strings(v)
	}
	if got := textwire.VerifSnapshot().Funcs; !reflect.DeepEqual(got, want) {
		res.Status, res.Kind = "viol", "wrong-registry"
		res.Msg = fmt.Sprintf("registry %v, want %v", got, want)
	}
	return res
}

func init() { families["reg"] = regFamily }

// ---- C20: conversion of receiver, arguments and results ----
type convCase struct {
	Data []tpair  `json:"data"`
	Src  string   `json:"src"`
	Recv string   `json:"recv"`
	Args []string `json:"args"`
	T    string   `json:"t"`
	Tags []string `json:"tags"`
}

func descGo(v any) string {
	switch x := v.(type) {
	case nil:
		return "nil"
	case int64:
		return fmt.Sprintf("int64(%d)", x)
	case int:
		return fmt.Sprintf("int(%d)", x)
	case float64:
		return "float64(" + strings.TrimSuffix(fmt.Sprintf("%v", x), ".0") + ")"
	case string:
		return "string(" + x + ")"
	case bool:
		return fmt.Sprintf("bool(%v)", x)
	case []any:
		parts := make([]string, len(x))
		for i, e := range x {
			parts[i] = descGo(e)
		}
		return "[]any{" + strings.Join(parts, ",") + "}"
	case map[string]any:
		keys := make([]string, 0, len(x))
		for k := range x {
			keys = append(keys, k)
		}
		sort.Strings(keys)
		parts := make([]string, len(keys))
		for i, k := range keys {
			parts[i] = k + ":" + descGo(x[k])
		}
		return "map{" + strings.Join(parts, ",") + "}"
	}
	return fmt.Sprintf("%T(%v)", v, v)
}

var convLog struct {
	recv string
	args []string
}

func logCall(recv any, args []any) {
	convLog.recv = descGo(recv)
	convLog.args = nil
	for _, a := range args {
		convLog.args = append(convLog.args, descGo(a))
	}
}

var convRegistered bool

func convSetup() {
	textwire.VerifReset()
	textwire.RegisterStrFunc("rec", func(s string, args ...any) string { logCall(s, args); return "ok" })
	textwire.RegisterArrFunc("rec", func(a []any, args ...any) []any { logCall(a, args); return []any{"ok"} })
	textwire.RegisterIntFunc("rec", func(i int, args ...any) int { logCall(i, args); return 1 })
	textwire.RegisterFloatFunc("rec", func(f float64, args ...any) float64 { logCall(f, args); return 1 })
	textwire.RegisterBoolFunc("rec", func(b bool, args ...any) bool { logCall(b, args); return true })
	// results: every kind the array function type allows, to be compared with the same value passed as data
	textwire.RegisterArrFunc("mixed", func(a []any, args ...any) []any { return mixedResult() })
	textwire.RegisterStrFunc("markup", func(s string, args ...any) string { return "<b>" + s + "&amp;é</b>" })
	textwire.RegisterIntFunc("minint", func(i int, args ...any) int { return -9223372036854775808 })
	textwire.RegisterFloatFunc("half", func(f float64, args ...any) float64 { return f / 2 })
	textwire.RegisterBoolFunc("neg", func(b bool, args ...any) bool { return !b })
	textwire.RegisterArrFunc("unsupported", func(a []any, args ...any) []any { return []any{1, make(chan int)} })
	// a function that changes the slice it is given: the template's array is not that slice
	textwire.RegisterArrFunc("scribble", func(a []any, args ...any) []any {
		for i := range a {
			a[i] = "scribbled"
		}
		for _, x := range args {
			if s, ok := x.([]any); ok {
				for i := range s {
					s[i] = "scribbled"
				}
			}
		}
		return []any{len(a)}
	})
	// a function whose result is a nil slice (a filter with no match): an empty array, as a nil slice in the data is
	textwire.RegisterArrFunc("none", func(a []any, args ...any) []any {
		var out []any
		return out
	})
	// a function that works in place and returns the very slice it was given (sorting, filling, mapping): the result is
	// that slice's content when the function returns
	textwire.RegisterArrFunc("inplace", func(a []any, args ...any) []any {
		if len(a) > 0 {
			a[0] = "Z"
		}
		for i, j := 1, len(a)-1; i < j; i, j = i+1, j-1 {
			a[i], a[j] = a[j], a[i]
		}
		return a
	})
}

func mixedResult() []any {
	return []any{1, int8(2), uint16(3), "s<i>", nil, 2.5, float32(0.5), true, []any{4, []any{}}, map[string]any{"k": 1}, []string{"a", "b"}}
}

func convFamily(raw json.RawMessage) Result {
	var c convCase
	json.Unmarshal(raw, &c)
	convSetup()
	if c.Src == "" {
		// result round trip: {{ x.f() }} prints as {{ y }} with the same Go value passed as data
		res := Result{ID: "result round trip", Status: "ok", Stats: map[string]int{"nontrivial": 1}}
		checks := []struct {
			src  string
			data map[string]any
			want any
		}{
			{"{{ a.mixed() }}|{{ a.mixed()[8][1] }}|{{ a.mixed()[9].k }}|{{ a.mixed().len() }}", map[string]any{"a": []any{}}, nil},
			{"{{ s.markup() }}", map[string]any{"s": "x"}, "<b>x&amp;é</b>"},
			{"{{ i.minint() }}", map[string]any{"i": 1}, int(-9223372036854775808)},
			{"{{ f.half() }}", map[string]any{"f": 2.5}, 1.25},
			{"{{ b.neg() }}", map[string]any{"b": true}, false},
		}
		for _, ck := range checks {
			got, err := textwire.EvaluateString(ck.src, ck.data)
			var want string
			var werr error
			if ck.want == nil {
				want, werr = textwire.EvaluateString("{{ y }}|{{ y[8][1] }}|{{ y[9].k }}|{{ y.len() }}", map[string]any{"y": mixedResult()})
			} else {
				want, werr = textwire.EvaluateString("{{ y }}", map[string]any{"y": ck.want})
			}
			if err != nil || werr != nil || got != want {
				res.Status, res.Kind = "viol", "result-conversion"
				res.Msg = fmt.Sprintf("%s gave (%q, %v); the same Go value passed as data prints (%q, %v)", ck.src, got, err, want, werr)
				return res
			}
		}
		// what a function does to the slices it receives stays with the function: the template's arrays keep their content,
		// and the next function receives that content
		convLog.recv, convLog.args = "<not called>", nil
		out, err := textwire.EvaluateString("{{ r = [3, 1, 2] }}{{ q = [[7], 8] }}{{ r.scribble(q, q[0]) }}|{{ r }}|{{ q }}|{{ r.rec(q) }}", nil)
		if err != nil || out != "3|3, 1, 2|7, 8|ok" || convLog.recv != "[]any{int64(3),int64(1),int64(2)}" ||
			len(convLog.args) != 1 || convLog.args[0] != "[]any{[]any{int64(7)},int64(8)}" {
			res.Status, res.Kind = "viol", "argument-conversion"
			res.Msg = fmt.Sprintf("after a custom function wrote into the slices it had received: output %q (err %v), the next function received %s %v", out, err, convLog.recv, convLog.args)
			return res
		}
		{
			const probe = "{{ %s.len() }}|{{ %s ? \"T\" : \"F\" }}|@each(x in %s)x@else-e@end|{{ %s.join(\"-\") }}|{{ %s.append(1) }}"
			viaFn, ferr := textwire.EvaluateString(fmt.Sprintf(probe, "r.none()", "r.none()", "r.none()", "r.none()", "r.none()"), map[string]any{"r": []any{1, 2}})
			viaData, derr := textwire.EvaluateString(fmt.Sprintf(probe, "d", "d", "d", "d", "d"), map[string]any{"d": []any(nil)})
			if ferr != nil || derr != nil || viaFn != viaData || viaFn != "0|T|-e||1" {
				res.Status, res.Kind = "viol", "result-conversion"
				res.Msg = fmt.Sprintf("a custom function returned a nil slice: the template sees %q (err %v); the same value passed as data gives %q (err %v); want \"0|T|-e||1\"", viaFn, ferr, viaData, derr)
				return res
			}
		}
		xs := []any{3, 1, 2, 5}
		for _, c := range []struct {
			src, want string
			data      map[string]any
		}{
			{"{{ r = [3, 1, 2, 5] }}{{ r.inplace() }}|{{ r }}|{{ r.inplace().len() }}", "Z, 5, 2, 1|3, 1, 2, 5|4", nil},
			{"{{ xs.inplace() }}|{{ xs }}|{{ [].inplace() }}|{{ [7].inplace() }}", "Z, 5, 2, 1|3, 1, 2, 5||Z", map[string]any{"xs": xs}},
			{"{{ [4, 6, 8].inplace()[1] }}", "8", nil},
		} {
			out, err := textwire.EvaluateString(c.src, c.data)
			if err != nil || out != c.want || !reflect.DeepEqual(xs, []any{3, 1, 2, 5}) {
				res.Status, res.Kind = "viol", "result-conversion"
				res.Msg = fmt.Sprintf("a custom function that works in place and returns the slice it was given: %q renders %q (err %v), want %q; caller's slice %v", c.src, out, err, c.want, xs)
				return res
			}
		}
		// a result that could not be passed as data either must be an error, as it is for data
		if out, err := textwire.EvaluateString("{{ a.unsupported() }}", map[string]any{"a": []any{}}); err == nil {
			res.Status, res.Kind = "viol", "result-conversion"
			res.Msg = fmt.Sprintf("a custom function returned an unsupported value; the render succeeded with %q", out)
		}
		return res
	}
	res := Result{ID: c.Src, Status: "ok", Tags: c.Tags, Stats: map[string]int{"nontrivial": 1}}
	convLog.recv, convLog.args = "<not called>", nil
	data, derr := goData(c.Data)
	if derr != nil {
		res.Status, res.Msg = "skip", derr.Error()
		return res
	}
	_, err := textwire.EvaluateString(expandMarkers(c.Src), data)
	if err != nil {
		res.Status, res.Kind, res.Msg = "viol", "wrong-error", "calling a registered function failed: "+firstLines(err.Error(), 2)
		return res
	}
	wantRecv := expandMarkers(c.Recv)
	if convLog.recv != wantRecv {
		res.Status, res.Kind = "viol", "receiver-conversion"
		res.Msg = fmt.Sprintf("the function received %s, want %s", convLog.recv, wantRecv)
		return res
	}
	for i := 0; i < len(c.Args) || i < len(convLog.args); i++ {
		var g, w string
		if i < len(convLog.args) {
			g = convLog.args[i]
		}
		if i < len(c.Args) {
			w = expandMarkers(c.Args[i])
		}
		if g != w {
			res.Status, res.Kind = "viol", "argument-conversion"
			res.Msg = fmt.Sprintf("argument %d received as %s, want %s", i+1, g, w)
			return res
		}
	}
	return res
}

func init() { families["conv"] = convFamily }
