package main

import (
	"bufio"
	"encoding/json"
	"flag"
	"fmt"
	"math/rand"
	"os"
	"path/filepath"
	"strconv"
	"strings"

	"github.com/textwire/textwire/v2/lexer"
	"github.com/textwire/textwire/v2/token"
)

// lextrace records traces of the real lexer: every token with its position and, after each NextToken, the lexer's
// private mode state (hook (*Lexer).VerifState). Inputs: a corpus of byte arrays (ndjson), the *.tw / *.tw.html files
// under a directory, and seeded random soups of lexemes.
func cmdLexTrace(args []string) int {
	fs := flag.NewFlagSet("lextrace", flag.ExitOnError)
	corpus := fs.String("corpus", "", "ndjson file of byte arrays")
	fixtures := fs.String("fixtures", "", "directory searched for template files")
	random := fs.Int("random", 0, "number of random inputs")
	maxlex := fs.Int("maxlex", 14, "maximum number of lexemes per random input")
	maxbytes := fs.Int("maxbytes", 600, "inputs longer than this are skipped")
	out := fs.String("out", "", "")
	shards := fs.Int("shards", 1, "")
	fs.Parse(args)
	var inputs []struct {
		id  string
		src []byte
	}
	seen := map[string]bool{}
	add := func(id string, b []byte) {
		if len(b) > *maxbytes || seen[string(b)] {
			return
		}
		seen[string(b)] = true
		inputs = append(inputs, struct {
			id  string
			src []byte
		}{id, b})
	}
	if *corpus != "" {
		f, err := os.Open(*corpus)
		if err == nil {
			sc := bufio.NewScanner(f)
			sc.Buffer(make([]byte, 1<<22), 1<<22)
			n := 0
			for sc.Scan() {
				var codes []int
				if json.Unmarshal(sc.Bytes(), &codes) == nil {
					n++
					add(fmt.Sprintf("corpus-%d", n), codesToBytes(codes))
				}
			}
			f.Close()
		}
	}
	if *fixtures != "" {
		filepath.Walk(*fixtures, func(p string, info os.FileInfo, err error) error {
			if err == nil && !info.IsDir() && (strings.HasSuffix(p, ".tw") || strings.HasSuffix(p, ".tw.html")) {
				if b, e := os.ReadFile(p); e == nil {
					add("file-"+strings.TrimPrefix(p, *fixtures), b)
				}
			}
			return nil
		})
	}
	seed, _ := strconv.ParseInt(os.Getenv("VERIF_SEED"), 10, 64)
	rng := rand.New(rand.NewSource(seed))
	soup := []string{"{{", "}}", "{{--", "--}}", "--", "-", "}", "{", "\\", "@", "@if", "@end", "@else", "@elseif", "@each", "@for", "@e", "@elsei",
		"@breakIf", "@break", "@continue", "@slot", "@insert", "@dump", "(", ")", "x", "in", "true", "nil", "1", "2.5", "3.", ".", ",", ";", ":", "?",
		"\"", "'", "\"a b\"", "'c\\'d'", "\n", "\r\n", " ", "\t", "é", "€", "\x00", "==", "!=", "<=", ">", "!", "=", "+", "++", "*", "/", "%", "[", "]",
		"<div class=\"x\">", "text", "{{ x }}", "@if(true)", "{{-- c --}}", "~", "#", "&"}
	for i := 0; i < *random; i++ {
		n := 1 + rng.Intn(*maxlex)
		var b []byte
		for k := 0; k < n; k++ {
			b = append(b, soup[rng.Intn(len(soup))]...)
		}
		add(fmt.Sprintf("random-%d", i), b)
	}
	files := make([]*bufio.Writer, *shards)
	for s := range files {
		f, err := os.Create(fmt.Sprintf("%s.%d", *out, s))
		if err != nil {
			fmt.Fprintln(os.Stderr, err)
			return 2
		}
		defer f.Close()
		files[s] = bufio.NewWriterSize(f, 1<<20)
		defer files[s].Flush()
	}
	type tk struct {
		T      int   `json:"t"`
		Lit    []int `json:"lit"`
		SL     uint  `json:"sl"`
		SC     uint  `json:"sc"`
		EL     uint  `json:"el"`
		EC     uint  `json:"ec"`
		HTML   bool  `json:"html"`
		Dir    bool  `json:"dir"`
		Parens int   `json:"parens"`
		Braces int   `json:"braces"`
	}
	for i, in := range inputs {
		toks := []tk{}
		func() {
			defer func() { recover() }()
			lx := lexer.New(string(in.src))
			for n := 0; n < tokenCap; n++ {
				t := lx.NextToken()
				st := lx.VerifState()
				toks = append(toks, tk{int(t.Type), bytesToCodes([]byte(t.Literal)), t.Pos.StartLine, t.Pos.StartCol, t.Pos.EndLine, t.Pos.EndCol,
					st.IsHTML, st.IsDirective, st.Parens, st.Braces})
				if t.Type == token.EOF || t.Type == token.ILLEGAL {
					break
				}
			}
		}()
		b, _ := json.Marshal(map[string]any{"id": in.id, "inp": bytesToCodes(in.src), "toks": toks})
		w := files[i%*shards]
		w.Write(b)
		w.WriteByte('\n')
	}
	fmt.Println(len(inputs))
	return 0
}

func init() { extraCmds["lextrace"] = cmdLexTrace }
