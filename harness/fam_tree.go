package main

import (
	"encoding/json"
	"fmt"
	"os"
	"path/filepath"
	"sort"
	"strings"

	textwire "github.com/textwire/textwire/v2"
	"github.com/textwire/textwire/v2/config"
)

// A tree case: template files on disk, a configuration, the expected load result and render operations.
type treeFile struct {
	Name string `json:"name"` // path relative to the template directory, without extension
	Path string `json:"path"` // or: explicit path relative to the case root (C18 families)
	Src  string `json:"src"`
	Kind string `json:"kind"` // "" file | "dir" | "symlink-dangling"
}

type treeCfg struct {
	Dir       string `json:"dir"`
	Ext       string `json:"ext"`
	ErrorPage string `json:"errorPage"`
	Debug     bool   `json:"debug"`
}

type loadExpect struct {
	Ok       bool     `json:"ok"`
	Names    []string `json:"names"`
	Mentions []string `json:"mentions"` // the error must identify one of these (file name or layout/component name)
	Any      bool     `json:"any"`
	File     string   `json:"file"` // C13: the error's path must be this file (tree name) ...
	Line     int      `json:"line"` // ... and its line this one
}

type treeOp struct {
	Op     string      `json:"op"`
	Name   string      `json:"name"`
	Data   []tpair     `json:"data"`
	Expect expectation `json:"expect"`
	Path   string      `json:"path"` // expected file (tree name) in the error, "" = not checked
}

type treeCase struct {
	First []treeFile `json:"first"` // a healthy tree loaded first in the same directory; Files then replaces it
	Files []treeFile `json:"files"`
	Cfg   treeCfg    `json:"cfg"`
	Load  loadExpect `json:"load"`
	Ops   []treeOp   `json:"ops"`
	Tags  []string   `json:"tags"`
}

var treeSeq int

// setupTree writes the files under a fresh root and chdirs there (Config.TemplateDir must be relative).
func setupTree(files []treeFile, cfg treeCfg) (root string, err error) {
	base := os.Getenv("TWH_SCRATCH")
	if base == "" {
		base = os.TempDir()
	}
	treeSeq++
	root = filepath.Join(base, "trees", fmt.Sprintf("w%d-%d", os.Getpid(), treeSeq))
	if err = os.MkdirAll(root, 0o755); err != nil {
		return
	}
	err = writeTree(root, files, cfg)
	return
}

// writeTree writes the files under root and chdirs there.
func writeTree(root string, files []treeFile, cfg treeCfg) (err error) {
	for _, f := range files {
		p := f.Path
		if p == "" {
			p = filepath.Join(strings.Trim(cfg.Dir, "/"), f.Name+cfg.Ext)
		}
		full := filepath.Join(root, p)
		if err = os.MkdirAll(filepath.Dir(full), 0o755); err != nil {
			return
		}
		switch f.Kind {
		case "dir":
			err = os.MkdirAll(full, 0o755)
		case "symlink-dangling":
			err = os.Symlink(filepath.Join(root, "does-not-exist"), full)
		default:
			err = os.WriteFile(full, []byte(expandMarkers(f.Src)), 0o644)
		}
		if err != nil {
			return
		}
	}
	err = os.Chdir(root)
	return
}

// replaceTree empties the directory and writes other files into it (the same paths as before, as far as they remain).
func replaceTree(root string, files []treeFile, cfg treeCfg) error {
	os.Chdir("/")
	entries, err := os.ReadDir(root)
	if err != nil {
		return err
	}
	for _, e := range entries {
		if err := os.RemoveAll(filepath.Join(root, e.Name())); err != nil {
			return err
		}
	}
	return writeTree(root, files, cfg)
}

func cleanupTree(root string) {
	os.Chdir("/")
	os.RemoveAll(root)
}

func mentionsAny(msg string, root string, cfg treeCfg, mentions []string) bool {
	for _, m := range mentions {
		if m == "" {
			continue
		}
		abs := filepath.Join(root, strings.Trim(cfg.Dir, "/"), m+cfg.Ext)
		if strings.Contains(msg, abs) || strings.Contains(msg, "'"+m+"'") || strings.Contains(msg, m+cfg.Ext) {
			return true
		}
		// a reference written with the ~ shortcut is reported under its resolved name's last segment
		if i := strings.LastIndex(m, "/"); i >= 0 && strings.Contains(msg, m[i+1:]) {
			return true
		}
	}
	return false
}

func treeFamily(raw json.RawMessage) Result {
	var c treeCase
	if err := json.Unmarshal(raw, &c); err != nil {
		return Result{ID: caseID(raw), Status: "skip", Msg: err.Error()}
	}
	res := Result{ID: treeID(c), Status: "ok", Tags: c.Tags, Stats: map[string]int{}}
	first := c.Files
	if len(c.First) > 0 {
		first = c.First
	}
	root, err := setupTree(first, c.Cfg)
	if err != nil {
		res.Status, res.Msg = "skip", err.Error()
		return res
	}
	defer cleanupTree(root)
	if len(c.First) > 0 {
		// the directory was healthy and loaded a moment ago; what is loaded now is what is on disk now
		textwire.VerifReset()
		if _, lerr := textwire.NewTemplate(&config.Config{TemplateDir: c.Cfg.Dir, TemplateExt: c.Cfg.Ext}); lerr != nil {
			res.Status, res.Msg = "skip", "the healthy tree does not load: "+lerr.Error()
			return res
		}
		if err := replaceTree(root, c.Files, c.Cfg); err != nil {
			res.Status, res.Msg = "skip", err.Error()
			return res
		}
	}
	textwire.VerifReset()
	tpl, lerr := textwire.NewTemplate(&config.Config{TemplateDir: c.Cfg.Dir, TemplateExt: c.Cfg.Ext,
		ErrorPagePath: c.Cfg.ErrorPage, DebugMode: c.Cfg.Debug})
	res.Stats["nontrivial"] = 1
	if c.Load.Any {
		if lerr != nil && tpl != nil {
			res.Status, res.Kind, res.Msg = "viol", "template-with-error", "NewTemplate returned a Template together with an error"
			return res
		}
		if lerr == nil && tpl == nil {
			res.Status, res.Kind, res.Msg = "viol", "nil-template", "NewTemplate returned (nil, nil)"
			return res
		}
		if lerr != nil && len(c.Load.Mentions) > 0 && !mentionsAny(lerr.Error(), root, c.Cfg, c.Load.Mentions) {
			res.Status, res.Kind = "viol", "error-does-not-identify-file"
			res.Msg = fmt.Sprintf("load error does not identify any of %q: %s", c.Load.Mentions, firstLines(lerr.Error(), 3))
			return res
		}
	}
	if !c.Load.Any {
		if c.Load.Ok {
			if lerr != nil {
				res.Status, res.Kind, res.Msg = "viol", "load-failed", "loading a valid tree failed: "+firstLines(lerr.Error(), 2)
				return res
			}
			if tpl == nil {
				res.Status, res.Kind, res.Msg = "viol", "nil-template", "NewTemplate returned (nil, nil)"
				return res
			}
			got := textwire.VerifNames(tpl)
			want := append([]string{}, c.Load.Names...)
			sort.Strings(want)
			if strings.Join(got, "\x00") != strings.Join(want, "\x00") {
				res.Status, res.Kind = "viol", "wrong-names"
				res.Msg = fmt.Sprintf("registered names %q, want %q", got, want)
				return res
			}
		} else {
			if lerr == nil {
				res.Status, res.Kind, res.Msg = "viol", "missing-error", "loading a faulty tree succeeded"
				return res
			}
			if tpl != nil {
				res.Status, res.Kind, res.Msg = "viol", "template-with-error", "NewTemplate returned a Template together with an error"
				return res
			}
			if len(c.Load.Mentions) > 0 && !mentionsAny(lerr.Error(), root, c.Cfg, c.Load.Mentions) {
				res.Status, res.Kind = "viol", "error-does-not-identify-file"
				res.Msg = fmt.Sprintf("load error does not identify any of %q: %s", c.Load.Mentions, firstLines(lerr.Error(), 3))
				return res
			}
			if c.Load.File != "" {
				line, path, ok := errLinePath(lerr)
				want := filepath.Join(root, strings.Trim(c.Cfg.Dir, "/"), c.Load.File+c.Cfg.Ext)
				if !ok || path != want || line != c.Load.Line {
					res.Status, res.Kind = "viol", "wrong-line-or-path"
					res.Msg = fmt.Sprintf("load error at %s:%d, the faulty construct is at %s:%d (%s)", path, line, want, c.Load.Line, firstLines(lerr.Error(), 2))
					return res
				}
			}
			return res
		}
	}
	if tpl == nil {
		return res
	}
	for _, op := range c.Ops {
		data, derr := goData(op.Data)
		if derr != nil {
			res.Status, res.Msg = "skip", derr.Error()
			return res
		}
		if op.Op == "EvalFile" {
			// C18: evaluating a file by path equals evaluating its content as a string
			abs := filepath.Join(root, strings.Trim(c.Cfg.Dir, "/"), op.Name+c.Cfg.Ext)
			if strings.HasPrefix(op.Name, "/") { // a path relative to the case's root, for files that are not templates of the tree
				abs = filepath.Join(root, op.Name)
			}
			content, rerr := os.ReadFile(abs)
			o2, e2 := textwire.EvaluateFile(abs, data)
			if rerr != nil {
				if e2 == nil {
					res.Status, res.Kind, res.Msg = "viol", "missing-error", "EvaluateFile of a missing file succeeded"
					return res
				}
				continue
			}
			o1, e1 := textwire.EvaluateString(string(content), data)
			if (e1 == nil) != (e2 == nil) || o1 != o2 || (e1 != nil && e1.Error() != e2.Error()) {
				res.Status, res.Kind = "viol", "evalfile-differs"
				res.Msg = fmt.Sprintf("EvaluateFile(%s) = (%q, %v), EvaluateString(content) = (%q, %v)", op.Name, o2, e2, o1, e1)
				return res
			}
			continue
		}
		out, ferr := tpl.String(op.Name, data)
		var e error
		if ferr != nil {
			e = ferr.Error()
		}
		judgeRender(&res, op.Expect, out, e)
		if res.Status != "ok" {
			res.Msg = fmt.Sprintf("String(%q): %s", op.Name, res.Msg)
			return res
		}
		if ferr != nil && op.Path != "" {
			want := filepath.Join(root, strings.Trim(c.Cfg.Dir, "/"), op.Path+c.Cfg.Ext)
			if ferr.Filepath() != want {
				res.Status, res.Kind = "viol", "wrong-path"
				res.Msg = fmt.Sprintf("String(%q): error path %q, want %q", op.Name, ferr.Filepath(), want)
				return res
			}
		}
	}
	return res
}

func treeID(c treeCase) string {
	var b strings.Builder
	for _, f := range c.Files {
		n := f.Name
		if n == "" {
			n = f.Path
		}
		fmt.Fprintf(&b, "%s=%q ", n, f.Src)
	}
	s := b.String()
	if len(s) > 400 {
		s = s[:400] + "..."
	}
	return s
}

func init() { families["tree"] = treeFamily }
