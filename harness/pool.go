package main

import (
	"bufio"
	"bytes"
	"encoding/json"
	"flag"
	"fmt"
	"io"
	"os"
	"os/exec"
	"regexp"
	"runtime"
	"runtime/debug"
	"strings"
	"sync"
	"sync/atomic"
	"syscall"
	"time"
)

// Result is the verdict of one case. Status:
//
//	ok    the real code behaved as the property (and the model) demand
//	viol  a property-level predicate failed on the real code (Kind says how)
//	drift model and code disagree on something no property constrains
//	skip  the case could not be run (infrastructure)
type Result struct {
	ID     string          `json:"id"`
	Status string          `json:"status"`
	Kind   string          `json:"kind,omitempty"` // panic | hang | wrong-output | wrong-error | missing-error | nondeterminism | race | state-changed ...
	Site   string          `json:"site,omitempty"` // innermost textwire function (panic/hang)
	Msg    string          `json:"msg,omitempty"`
	Tags   []string        `json:"tags,omitempty"`
	Got    map[string]any  `json:"got,omitempty"`
	Case   json.RawMessage `json:"case,omitempty"`  // echoed for non-ok results
	Stats  map[string]int  `json:"stats,omitempty"` // per-case counters (summed by the driver)
}

// A family turns one generated case into a Result by driving the real code.
type family func(raw json.RawMessage) Result

var families = map[string]family{}

var twFrame = regexp.MustCompile(`github\.com/textwire/textwire/v2[^\s(]*\.([A-Za-z0-9_().*]+)\(`)

// siteOf extracts the innermost textwire function from a Go stack dump.
func siteOf(stack string) string {
	for _, line := range strings.Split(stack, "\n") {
		if strings.Contains(line, "github.com/textwire/textwire/v2") && !strings.HasPrefix(line, "\t") {
			if m := twFrame.FindStringSubmatch(line); m != nil {
				s := m[1]
				s = strings.TrimPrefix(s, "(*")
				s = strings.ReplaceAll(s, ")", "")
				return s
			}
		}
	}
	return ""
}

func caseID(raw json.RawMessage) string {
	var h struct {
		ID any `json:"id"`
	}
	json.Unmarshal(raw, &h)
	if h.ID == nil {
		var l struct {
			Inp []int  `json:"inp"`
			Src string `json:"src"`
		}
		json.Unmarshal(raw, &l)
		if l.Inp != nil {
			return fmt.Sprintf("%q", codesToBytes(l.Inp))
		}
		if l.Src != "" {
			return fmt.Sprintf("%q", l.Src)
		}
		s := string(raw)
		if len(s) > 240 {
			s = s[:240] + "..."
		}
		return s
	}
	return fmt.Sprint(h.ID)
}

func caseTags(raw json.RawMessage) []string {
	var h struct {
		Tags []string `json:"tags"`
	}
	json.Unmarshal(raw, &h)
	return h.Tags
}

func runGuarded(f family, raw json.RawMessage) (res Result) {
	defer func() {
		if r := recover(); r != nil {
			st := string(debug.Stack())
			// drop the frames of the panic machinery itself
			if i := strings.Index(st, "panic("); i >= 0 {
				st = st[i:]
			}
			res = Result{ID: caseID(raw), Status: "viol", Kind: "panic", Site: siteOf(st),
				Msg: fmt.Sprint(r), Tags: caseTags(raw)}
		}
	}()
	return f(raw)
}

// textwire frames of the goroutine that is running a case, outermost first
func caseFrames(dump string) []string {
	for _, g := range strings.Split(dump, "\n\ngoroutine ") {
		if !strings.Contains(g, "runGuarded") {
			continue
		}
		var fr []string
		for _, line := range strings.Split(g, "\n") {
			if strings.HasPrefix(line, "\t") || !strings.Contains(line, "github.com/textwire/textwire/v2") {
				continue
			}
			if m := twFrame.FindStringSubmatch(line); m != nil {
				s := strings.ReplaceAll(strings.TrimPrefix(m[1], "(*"), ")", "")
				fr = append([]string{s}, fr...)
			}
		}
		return fr
	}
	return nil
}

// loopSite samples the stack of the spinning goroutine a few times; the deepest frame common to all samples
// is the function whose loop does not terminate.
func loopSite() string {
	var common []string
	buf := make([]byte, 1<<20)
	for k := 0; k < 40; k++ {
		n := runtime.Stack(buf, true)
		fr := caseFrames(string(buf[:n]))
		if k == 0 {
			common = fr
		} else {
			i := 0
			for i < len(common) && i < len(fr) && common[i] == fr[i] {
				i++
			}
			common = common[:i]
		}
		time.Sleep(time.Millisecond)
	}
	if len(common) == 0 {
		return ""
	}
	return common[len(common)-1]
}

func cmdWorker(args []string) int {
	fs := flag.NewFlagSet("worker", flag.ExitOnError)
	fam := fs.String("family", "", "")
	caseMs := fs.Int("case-timeout", 1500, "")
	fs.Parse(args)
	f, ok := families[*fam]
	if !ok {
		fmt.Fprintln(os.Stderr, "unknown family", *fam)
		return 2
	}
	in := bufio.NewReaderSize(os.Stdin, 1<<20)
	out := bufio.NewWriter(os.Stdout)
	for {
		line, err := in.ReadBytes('\n')
		if len(bytes.TrimSpace(line)) > 0 {
			raw := json.RawMessage(bytes.TrimSpace(line))
			ch := make(chan Result, 1)
			go func() { ch <- runGuarded(f, raw) }()
			var res Result
			hung := false
			select {
			case res = <-ch:
			case <-time.After(time.Duration(*caseMs) * time.Millisecond):
				hung = true
				res = Result{ID: caseID(raw), Status: "viol", Kind: "hang", Site: loopSite(),
					Msg: fmt.Sprintf("no result within %d ms", *caseMs), Tags: caseTags(raw)}
			}
			if res.Status != "ok" {
				res.Case = raw
			}
			b, _ := json.Marshal(res)
			out.Write(b)
			out.WriteByte('\n')
			out.Flush()
			if hung {
				return 3 // a spinning goroutine cannot be stopped: the parent starts a fresh worker
			}
		}
		if err != nil {
			return 0
		}
	}
}

type child struct {
	cmd    *exec.Cmd
	stdin  io.WriteCloser
	stdout *bufio.Reader
	stderr *bytes.Buffer
}

var caseTimeoutMs = 1500

var confirmedHangs, totalHangs int32

const hangLimit = 24

func startChild(fam string, env []string, timeoutMs int) (*child, error) {
	self, _ := os.Executable()
	cmd := exec.Command(self, "worker", "-family", fam, "-case-timeout", fmt.Sprint(timeoutMs))
	cmd.Env = append(os.Environ(), env...)
	stdin, _ := cmd.StdinPipe()
	stdout, _ := cmd.StdoutPipe()
	var eb bytes.Buffer
	cmd.Stderr = &eb
	if err := cmd.Start(); err != nil {
		return nil, err
	}
	return &child{cmd, stdin, bufio.NewReaderSize(stdout, 1<<20), &eb}, nil
}

func (c *child) kill(dump bool) string {
	if dump {
		c.cmd.Process.Signal(syscall.SIGQUIT)
		done := make(chan struct{})
		go func() { c.cmd.Wait(); close(done) }()
		select {
		case <-done:
		case <-time.After(3 * time.Second):
			c.cmd.Process.Kill()
			<-done
		}
		return c.stderr.String()
	}
	c.cmd.Process.Kill()
	c.cmd.Wait()
	return c.stderr.String()
}

// hangSite picks, from a SIGQUIT dump, the innermost textwire frame of the running goroutine that is
// executing a case (the one whose stack passes through runGuarded).
func hangSite(dump string) string {
	for _, g := range strings.Split(dump, "\n\ngoroutine ") {
		if strings.Contains(g, "runGuarded") && strings.Contains(g, "github.com/textwire/textwire/v2") {
			return siteOf(g)
		}
	}
	for _, g := range strings.Split(dump, "\n\ngoroutine ") {
		if strings.Contains(g, "github.com/textwire/textwire/v2") {
			return siteOf(g)
		}
	}
	return ""
}

func cmdRun(args []string) int {
	fs := flag.NewFlagSet("run", flag.ExitOnError)
	fam := fs.String("family", "", "")
	casesPath := fs.String("cases", "", "")
	outPath := fs.String("out", "", "")
	workers := fs.Int("workers", 16, "")
	timeoutMs := fs.Int("timeout", 1500, "per-case watchdog in ms")
	fs.Parse(args)
	caseTimeoutMs = *timeoutMs
	*timeoutMs = 2**timeoutMs + 2000 // the parent-level watchdog is only a backstop
	if _, ok := families[*fam]; !ok {
		fmt.Fprintln(os.Stderr, "unknown family", *fam)
		return 2
	}
	data, err := os.ReadFile(*casesPath)
	if err != nil {
		fmt.Fprintln(os.Stderr, err)
		return 2
	}
	var cases [][]byte
	for _, l := range bytes.Split(data, []byte("\n")) {
		if len(bytes.TrimSpace(l)) > 0 {
			cases = append(cases, l)
		}
	}
	outF, err := os.Create(*outPath)
	if err != nil {
		fmt.Fprintln(os.Stderr, err)
		return 2
	}
	defer outF.Close()
	out := bufio.NewWriterSize(outF, 1<<20)
	defer out.Flush()
	var mu sync.Mutex
	emit := func(b []byte) {
		mu.Lock()
		out.Write(b)
		out.WriteByte('\n')
		mu.Unlock()
	}
	jobs := make(chan []byte, 256)
	var wg sync.WaitGroup
	var infra int
	var infraMu sync.Mutex
	for w := 0; w < *workers; w++ {
		wg.Add(1)
		go func() {
			defer wg.Done()
			var c *child
			for raw := range jobs {
				if atomic.LoadInt32(&totalHangs) >= hangLimit {
					continue // fail fast: the property is already violated many times over
				}
				if c == nil {
					var err error
					c, err = startChild(*fam, nil, caseTimeoutMs)
					if err != nil {
						infraMu.Lock()
						infra++
						infraMu.Unlock()
						continue
					}
				}
				c.stdin.Write(raw)
				c.stdin.Write([]byte("\n"))
				type rd struct {
					line []byte
					err  error
				}
				ch := make(chan rd, 1)
				go func(cc *child) {
					l, e := cc.stdout.ReadBytes('\n')
					ch <- rd{l, e}
				}(c)
				select {
				case r := <-ch:
					if r.err != nil || len(bytes.TrimSpace(r.line)) == 0 {
						// child died: fatal runtime error (e.g. stack overflow, concurrent map write)
						dump := c.kill(false)
						c = nil
						kind, msg := "crash", firstLines(dump, 3)
						res := Result{ID: caseID(raw), Status: "viol", Kind: kind, Site: siteOf(dump), Msg: msg,
							Tags: caseTags(raw), Case: json.RawMessage(bytes.TrimSpace(raw))}
						b, _ := json.Marshal(res)
						emit(b)
						continue
					}
					if bytes.Contains(r.line, []byte(`"kind":"hang"`)) {
						c.kill(false) // the worker exits after reporting a hang
						c = nil
						// a loaded machine can stall a healthy case: a hang is only reported when the case also
						// exceeds a six times longer limit in a fresh worker
						// (only until one hang has been confirmed: after that further hangs are taken at face value, and
						// after hangLimit of them the remaining cases are skipped -- every one would cost the full limit)
						if atomic.LoadInt32(&confirmedHangs) == 0 {
							if again := confirmHang(*fam, raw); again != nil {
								emit(again)
								continue
							}
							atomic.AddInt32(&confirmedHangs, 1)
						}
						atomic.AddInt32(&totalHangs, 1)
						emit(bytes.TrimSpace(r.line))
						continue
					}
					emit(bytes.TrimSpace(r.line))
				case <-time.After(time.Duration(*timeoutMs) * time.Millisecond):
					dump := c.kill(true)
					c = nil
					res := Result{ID: caseID(raw), Status: "viol", Kind: "hang", Site: hangSite(dump),
						Msg: fmt.Sprintf("no result within %d ms", *timeoutMs), Tags: caseTags(raw),
						Case: json.RawMessage(bytes.TrimSpace(raw))}
					b, _ := json.Marshal(res)
					emit(b)
					atomic.AddInt32(&totalHangs, 1)
				}
			}
			if c != nil {
				c.stdin.Close()
				c.cmd.Wait()
			}
		}()
	}
	for _, c := range cases {
		jobs <- c
	}
	close(jobs)
	wg.Wait()
	if infra > 0 {
		fmt.Fprintln(os.Stderr, "infrastructure failures:", infra)
		return 2
	}
	return 0
}

// confirmHang re-runs one case in a fresh worker with a six times longer limit. It returns the result line of the
// second run when the case finished there (so the first "hang" was a stall), nil when it hung again.
func confirmHang(fam string, raw []byte) []byte {
	saved := caseTimeoutMs
	c, err := startChild(fam, nil, 6*saved)
	if err != nil {
		return nil
	}
	defer c.kill(false)
	c.stdin.Write(raw)
	c.stdin.Write([]byte("\n"))
	ch := make(chan []byte, 1)
	go func() {
		l, _ := c.stdout.ReadBytes('\n')
		ch <- l
	}()
	select {
	case l := <-ch:
		l = bytes.TrimSpace(l)
		if len(l) == 0 || bytes.Contains(l, []byte(`"kind":"hang"`)) {
			return nil
		}
		return l
	case <-time.After(time.Duration(7*saved+2000) * time.Millisecond):
		return nil
	}
}

func firstLines(s string, n int) string {
	ls := strings.Split(strings.TrimSpace(s), "\n")
	if len(ls) > n {
		ls = ls[:n]
	}
	return strings.Join(ls, " | ")
}
