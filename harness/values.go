package main

import (
	"encoding/json"
	"fmt"
	"math"
)

// tval is the typed JSON encoding of a model value (spec/TwValues.tla).
type tval struct {
	T string          `json:"t"`
	B string          `json:"b,omitempty"` // int anchor: z | max | min
	O int64           `json:"o,omitempty"` // int offset
	N int64           `json:"n,omitempty"` // float numerator
	E int             `json:"e,omitempty"` // float exponent: n / 2^e
	V json.RawMessage `json:"v,omitempty"`
}

type tpair struct {
	K string `json:"k"`
	V tval   `json:"v"`
}

// goValue materialises a model value as the plain Go value a caller would pass as data.
func goValue(v tval) (any, error) {
	switch v.T {
	case "int":
		switch v.B {
		case "z", "":
			return int(v.O), nil
		case "max":
			return int64(math.MaxInt64) + v.O, nil
		case "min":
			return int64(math.MinInt64) + v.O, nil
		}
		return nil, fmt.Errorf("bad anchor %q", v.B)
	case "float":
		if v.E == -2 { // negative zero
			return math.Copysign(0, -1), nil
		}
		if v.E == -1 { // IEEE-754 special values of the model: n = 0 NaN, 1 +Inf, -1 -Inf
			switch {
			case v.N == 0:
				return math.NaN(), nil
			case v.N > 0:
				return math.Inf(1), nil
			}
			return math.Inf(-1), nil
		}
		return float64(v.N) / float64(int64(1)<<uint(v.E)), nil
	case "str":
		var s string
		if err := json.Unmarshal(v.V, &s); err != nil {
			return nil, err
		}
		return expandMarkers(s), nil
	case "bool":
		var b bool
		if err := json.Unmarshal(v.V, &b); err != nil {
			return nil, err
		}
		return b, nil
	case "nil":
		return nil, nil
	case "arr":
		var es []tval
		if len(v.V) > 0 {
			if err := json.Unmarshal(v.V, &es); err != nil {
				return nil, err
			}
		}
		out := make([]any, 0, len(es))
		for _, e := range es {
			g, err := goValue(e)
			if err != nil {
				return nil, err
			}
			out = append(out, g)
		}
		return out, nil
	case "obj":
		var ps []tpair
		if len(v.V) > 0 {
			if err := json.Unmarshal(v.V, &ps); err != nil {
				return nil, err
			}
		}
		out := map[string]any{}
		for _, p := range ps {
			g, err := goValue(p.V)
			if err != nil {
				return nil, err
			}
			out[p.K] = g
		}
		return out, nil
	}
	return nil, fmt.Errorf("unknown value type %q", v.T)
}

func goData(ps []tpair) (map[string]any, error) {
	if ps == nil {
		return nil, nil
	}
	out := map[string]any{}
	for _, p := range ps {
		g, err := goValue(p.V)
		if err != nil {
			return nil, err
		}
		out[p.K] = g
	}
	return out, nil
}

// TLA+ source strings are ASCII; these markers stand for non-ASCII characters and bytes.
var markers = map[string]string{"$e$": "é", "$E$": "É", "$u$": "€", "$g$": "😀", "$r$": "\r", "$z$": "\x00", "$s$": "ß", "$d$": "$", "$b$": "\xef\xbb\xbf", "$i$": "ı", "$l$": "ſ",
	"$x$": "\xe9", "$c$": "\xe2\x82", "$k$": "\x80", "$n$": "\u00a0", "$f$": "\f"} // the last three are not UTF-8

func expandMarkers(s string) string {
	if !containsDollar(s) {
		return s
	}
	out := make([]byte, 0, len(s))
	for i := 0; i < len(s); {
		if s[i] == '$' && i+2 < len(s) && s[i+2] == '$' {
			if r, ok := markers[s[i:i+3]]; ok {
				out = append(out, r...)
				i += 3
				continue
			}
		}
		out = append(out, s[i])
		i++
	}
	return string(out)
}

func containsDollar(s string) bool {
	for i := 0; i < len(s); i++ {
		if s[i] == '$' {
			return true
		}
	}
	return false
}
