package main

import (
	"crypto/sha1"
	"encoding/json"
	"fmt"
	"net/http/httptest"
	"os"
	"strconv"
	"strings"

	textwire "github.com/textwire/textwire/v2"
	"github.com/textwire/textwire/v2/config"
)

// C14: each case is run N times in this process; all results must be identical. The signature of the first run is
// returned so that the driver can also compare results across fresh processes.
type detCase struct {
	Kind  string  `json:"kind"`
	Src   string  `json:"src"`
	Data  []tpair `json:"data"`
	GData []struct {
		K string `json:"k"`
		V goval  `json:"v"`
	} `json:"gdata"`
	Files     []treeFile `json:"files"`
	Cfg       treeCfg    `json:"cfg"`
	Page      string     `json:"page"`
	Datas     [][]tpair  `json:"datas"` // kind "tree": data maps rendered one after the other on ONE loaded Template
	Steps     []string   `json:"steps"` // kind "seq": sources rendered one after the other in this process
	TreeSteps []struct {
		Files []treeFile `json:"files"`
		Want  string     `json:"want"`
	} `json:"tsteps"` // kind "treeseq": directories loaded and rendered one after the other, each with the output its files say
	Debugs []bool   `json:"debugs"` // kind "respseq": failing Responses in a row, the debug flag of each
	Pages  []string `json:"pages"`
	ExpOk  []bool   `json:"expok"` // kind "seq": does step k render (true) or fail (false), whatever ran before
	Tags   []string `json:"tags"`
}

func detOnce(c detCase) (sig string, err error) {
	switch c.Kind {
	case "render":
		data, derr := goData(c.Data)
		if derr != nil {
			return "", derr
		}
		if len(c.GData) > 0 {
			if data == nil {
				data = map[string]any{}
			}
			for _, p := range c.GData {
				data[p.K], _ = materialise(p.V)
			}
		}
		out, rerr := textwire.EvaluateString(expandMarkers(c.Src), data)
		if rerr != nil {
			return "ERR " + rerr.Error(), nil
		}
		return "OUT " + out, nil
	case "seq":
		// the same source must give the same result wherever it stands in the sequence (after a success, after a failure)
		seen := map[string]string{}
		var sigs []string
		for i, src := range c.Steps {
			out, rerr := textwire.EvaluateString(expandMarkers(src), nil)
			sig := "OUT " + out
			if rerr != nil {
				sig = "ERR " + rerr.Error()
			}
			if i < len(c.ExpOk) && c.ExpOk[i] != (rerr == nil) {
				return fmt.Sprintf("DIFFERS step %d: %q %s here; rendered first in a fresh process it %s", i+1, src,
					map[bool]string{true: "renders", false: "fails"}[rerr == nil], map[bool]string{true: "renders", false: "fails"}[c.ExpOk[i]]), nil
			}
			if prev, ok := seen[src]; ok && prev != sig {
				return fmt.Sprintf("DIFFERS step %d: %q gave %q before and %q now", i+1, src, prev, sig), nil
			}
			seen[src] = sig
			sigs = append(sigs, sig)
		}
		return strings.Join(sigs, " ; "), nil
	case "respseq":
		root, serr := setupTree(c.Files, c.Cfg)
		if serr != nil {
			return "", serr
		}
		defer cleanupTree(root)
		textwire.VerifReset()
		seen := map[string]string{}
		var sigs []string
		for i, dbg := range c.Debugs {
			tpl, lerr := textwire.NewTemplate(&config.Config{TemplateDir: c.Cfg.Dir, TemplateExt: c.Cfg.Ext, DebugMode: dbg})
			if lerr != nil {
				return "", lerr
			}
			page := c.Pages[i%len(c.Pages)]
			w := httptest.NewRecorder()
			rerr := tpl.Response(w, page, nil)
			body := strings.ReplaceAll(w.Body.String(), root, "$ROOT")
			if rerr == nil {
				return fmt.Sprintf("DIFFERS step %d: Response(%s) returned nil", i+1, page), nil
			}
			_, ferr := tpl.String(page, nil)
			msg := ""
			if ferr != nil {
				msg = ferr.Message()
			}
			shows := msg != "" && strings.Contains(body, msg)
			if shows != dbg {
				return fmt.Sprintf("DIFFERS step %d: debug mode is %v, the body of Response(%s) %s the error message (%q)", i+1, dbg, page,
					map[bool]string{true: "shows", false: "does not show"}[shows], clip(body, 160)), nil
			}
			key := fmt.Sprintf("%v %s", dbg, page)
			if prev, ok := seen[key]; ok && prev != body {
				return fmt.Sprintf("DIFFERS step %d: Response(%s) with debug %v wrote %q before and %q now", i+1, page, dbg, clip(prev, 120), clip(body, 120)), nil
			}
			seen[key] = body
			sigs = append(sigs, body)
		}
		return strings.Join(sigs, " ; "), nil
	case "treeseq":
		var sigs []string
		for i, st := range c.TreeSteps {
			root, serr := setupTree(st.Files, c.Cfg)
			if serr != nil {
				return "", serr
			}
			tpl, lerr := textwire.NewTemplate(&config.Config{TemplateDir: c.Cfg.Dir, TemplateExt: c.Cfg.Ext})
			sig := ""
			if lerr != nil {
				sig = "LOADERR " + strings.ReplaceAll(lerr.Error(), root, "$ROOT")
			} else if out, ferr := tpl.String(c.Page, nil); ferr != nil {
				sig = "ERR " + strings.ReplaceAll(ferr.String(), root, "$ROOT")
			} else {
				sig = "OUT " + out
			}
			cleanupTree(root)
			if sig != st.Want {
				return fmt.Sprintf("DIFFERS step %d: the directory renders %q; its files say %q", i+1, sig, st.Want), nil
			}
			sigs = append(sigs, sig)
		}
		return strings.Join(sigs, " ; "), nil
	case "tree":
		root, serr := setupTree(c.Files, c.Cfg)
		if serr != nil {
			return "", serr
		}
		defer cleanupTree(root)
		textwire.VerifReset()
		tpl, lerr := textwire.NewTemplate(&config.Config{TemplateDir: c.Cfg.Dir, TemplateExt: c.Cfg.Ext})
		if lerr != nil {
			return "LOADERR " + strings.ReplaceAll(lerr.Error(), root, "$ROOT"), nil
		}
		render := func(t *textwire.Template, d []tpair) string {
			data, _ := goData(d)
			out, ferr := t.String(c.Page, data)
			if ferr != nil {
				return "ERR " + strings.ReplaceAll(ferr.String(), root, "$ROOT")
			}
			return "OUT " + out
		}
		if len(c.Datas) == 0 {
			return render(tpl, nil), nil
		}
		// the same files, data and configuration give the same result every time: each data map rendered after the
		// others on one Template must give what it gives first on a freshly loaded one
		var sigs []string
		for i, d := range c.Datas {
			got := render(tpl, d)
			textwire.VerifReset()
			fresh, lerr := textwire.NewTemplate(&config.Config{TemplateDir: c.Cfg.Dir, TemplateExt: c.Cfg.Ext})
			if lerr != nil {
				return "", lerr
			}
			if want := render(fresh, d); want != got {
				return fmt.Sprintf("DIFFERS step %d: rendered after the other data maps the page gives %q; on a freshly loaded Template %q", i+1, got, want), nil
			}
			sigs = append(sigs, got)
		}
		return strings.Join(sigs, " ; "), nil
	}
	return "", fmt.Errorf("unknown kind %q", c.Kind)
}

func detFamily(raw json.RawMessage) Result {
	var c detCase
	if err := json.Unmarshal(raw, &c); err != nil {
		return Result{ID: caseID(raw), Status: "skip", Msg: err.Error()}
	}
	id := c.Src
	if c.Kind == "seq" {
		id = strings.Join(c.Steps, " ; ")
	}
	if c.Kind == "tree" {
		id = treeID(treeCase{Files: c.Files})
	}
	id = fmt.Sprintf("%s %s #%x", id, strings.Join(c.Tags, ","), sha1.Sum(raw))
	res := Result{ID: id, Status: "ok", Tags: c.Tags, Stats: map[string]int{"nontrivial": 1}}
	n, _ := strconv.Atoi(os.Getenv("TWH_REPEAT"))
	if n < 2 {
		n = 20
	}
	first := ""
	for i := 0; i < n; i++ {
		sig, err := detOnce(c)
		if err != nil {
			res.Status, res.Msg = "skip", err.Error()
			return res
		}
		if strings.HasPrefix(sig, "DIFFERS ") {
			res.Status, res.Kind = "viol", "nondeterminism"
			res.Msg = "the same render gave different results within one process: " + sig
			return res
		}
		if i == 0 {
			first = sig
		} else if sig != first {
			res.Status, res.Kind = "viol", "nondeterminism"
			res.Msg = fmt.Sprintf("run 1 gave %q, run %d gave %q", first, i+1, sig)
			return res
		}
	}
	res.Stats["runs"] = n
	res.Got = map[string]any{"sig": first}
	return res
}

func init() { families["det"] = detFamily }
