package main

import (
	"bytes"
	"encoding/json"
	"fmt"
	"os"
	"path/filepath"
	"strings"

	textwire "github.com/textwire/textwire/v2"
	"github.com/textwire/textwire/v2/lexer"
	"github.com/textwire/textwire/v2/parser"
	"github.com/textwire/textwire/v2/token"
)

// ---- the language's keyword table (mirror of spec/TwKeywords.tla) ----
var specDirectives = []string{"@if", "@else", "@elseif", "@end", "@use", "@reserve", "@insert", "@for", "@each",
	"@continue", "@continueIf", "@break", "@breakIf", "@component", "@slot", "@dump"}

var tokenNames = []string{"ILLEGAL", "EOF", "IDENT", "HTML", "INT", "FLOAT", "STR", "ADD", "SUB", "MUL", "DIV", "MOD", "INC", "DEC",
	"NOT", "ASSIGN", "EQ", "NOT_EQ", "LTHAN", "GTHAN", "LTHAN_EQ", "GTHAN_EQ", "LBRACES", "RBRACES", "LBRACE", "RBRACE",
	"LPAREN", "RPAREN", "LBRACKET", "RBRACKET", "QUESTION", "COLON", "COMMA", "DOT", "SEMI", "TRUE", "FALSE", "NIL", "IN",
	"IF", "ELSE", "ELSE_IF", "END", "FOR", "USE", "EACH", "BREAK_IF", "CONTINUE_IF", "INSERT", "RESERVE", "BREAK", "CONTINUE",
	"COMPONENT", "SLOT", "DUMP"}

func tokName(t token.TokenType) string {
	if int(t) >= 0 && int(t) < len(tokenNames) {
		return tokenNames[t]
	}
	return fmt.Sprintf("T%d", int(t))
}

// keywordDrift reports whether the implementation's directive table differs from the specification's.
func keywordDrift() string {
	impl := token.GetDirectives()
	if len(impl) != len(specDirectives) {
		return fmt.Sprintf("directive table has %d entries, specification has %d", len(impl), len(specDirectives))
	}
	for _, d := range specDirectives {
		if _, ok := impl[d]; !ok {
			return "directive " + d + " missing from the implementation's table"
		}
	}
	return ""
}

type mtok struct {
	T   string `json:"t"`
	Lit []int  `json:"lit"`
	S   int    `json:"s"`
	E   int    `json:"e"`
	SL  int    `json:"sl"`
	SC  int    `json:"sc"`
	EL  int    `json:"el"`
	EC  int    `json:"ec"`
}

type lexCase struct {
	ID      any      `json:"id"`
	Inp     []int    `json:"inp"`
	Toks    []mtok   `json:"toks"`
	Cls     string   `json:"cls"`
	Out     []int    `json:"out"`
	MustErr bool     `json:"mustErr"`
	Tags    []string `json:"tags"`
}

type rtok struct {
	T              string
	Lit            []byte
	SL, SC, EL, EC int
	S, E           int // 1-based offsets, 0 when the position does not exist in the input
	Pos            token.Position
}

func codesToBytes(c []int) []byte {
	b := make([]byte, len(c))
	for i, x := range c {
		b[i] = byte(x)
	}
	return b
}

func bytesToCodes(b []byte) []int {
	c := make([]int, len(b))
	for i, x := range b {
		c[i] = int(x)
	}
	return c
}

const tokenCap = 20000

// lexAll runs the real lexer to EOF / ILLEGAL. capped = the token cap was hit (no progress).
func lexAll(src string) (toks []rtok, capped bool) { return lexTokens(src, true) }

// lexTokens runs the real lexer to EOF; with stopAtIllegal it stops after the first illegal token (where the
// specification's lexer and the parser stop).
func lexTokens(src string, stopAtIllegal bool) (toks []rtok, capped bool) {
	starts := []int{0}
	for i := 0; i < len(src); i++ {
		if src[i] == '\n' {
			starts = append(starts, i+1)
		}
	}
	off := func(line, col int) int {
		if line < 0 || line >= len(starts) {
			return 0
		}
		o := starts[line] + col
		end := len(src)
		if line+1 < len(starts) {
			end = starts[line+1] - 1 // the newline byte itself is the last column of its line
		}
		if o > end {
			return 0
		}
		return o + 1
	}
	l := lexer.New(src)
	for n := 0; ; n++ {
		if n >= tokenCap+len(src) {
			return toks, true
		}
		t := l.NextToken()
		r := rtok{T: tokName(t.Type), Lit: []byte(t.Literal), SL: int(t.Pos.StartLine), SC: int(t.Pos.StartCol),
			EL: int(t.Pos.EndLine), EC: int(t.Pos.EndCol), Pos: t.Pos}
		r.S = off(r.SL, r.SC)
		r.E = off(r.EL, r.EC)
		toks = append(toks, r)
		if t.Type == token.EOF || (stopAtIllegal && t.Type == token.ILLEGAL) {
			return toks, false
		}
	}
}

type lexOracle struct {
	src []byte
}

func (o lexOracle) ch(i int) byte { // 1-based
	if i >= 1 && i <= len(o.src) {
		return o.src[i-1]
	}
	return 0
}

func (o lexOracle) keywordAt(i int) bool {
	if o.ch(i) != '@' {
		return false
	}
	for _, d := range specDirectives {
		if i-1+len(d) <= len(o.src) && string(o.src[i-1:i-1+len(d)]) == d {
			return true
		}
	}
	return false
}

func (o lexOracle) textOf(s, e int) []byte {
	var out []byte
	for i := s; i <= e; i++ {
		if o.ch(i) == '\\' && i < e && (o.keywordAt(i+1) || (o.ch(i+1) == '{' && o.ch(i+2) == '{')) {
			continue
		}
		out = append(out, o.ch(i))
	}
	return out
}

// skipComment: offset after the terminator of the comment whose body starts at i, or 0.
func (o lexOracle) skipComment(i int) int {
	for ; i <= len(o.src); i++ {
		if o.ch(i) == '-' && o.ch(i+1) == '-' && o.ch(i+2) == '}' && o.ch(i+3) == '}' {
			return i + 4
		}
	}
	return 0
}

func isWS(c byte) bool { return c == ' ' || c == '\t' || c == '\n' || c == '\r' }

// gapOK (C19): the gaps between tokens hold only whitespace inside code, or comments. After a text token there is no code:
// the gap holds comments only. Before a text token that follows a non-text token, white space alone would belong to the text.
func (o lexOracle) gapOK(i, j int, afterText, beforeText bool) bool {
	start := i
	comments := 0
	for i <= j {
		if !afterText && isWS(o.ch(i)) {
			i++
			continue
		}
		if o.ch(i) == '{' && o.ch(i+1) == '{' && o.ch(i+2) == '-' && o.ch(i+3) == '-' {
			k := o.skipComment(i + 2)
			if k == 0 || k-1 > j {
				return false
			}
			i = k
			comments++
			continue
		}
		return false
	}
	if !afterText && beforeText && start <= j && comments == 0 {
		return false
	}
	return true
}

func unescQuote(s []byte, q byte) []byte {
	return bytes.ReplaceAll(s, []byte{'\\', q}, []byte{q})
}

// tilingViolation evaluates the C19 predicates on real tokens; "" when they all hold.
func tilingViolation(src []byte, ts []rtok) (kind, msg string) {
	o := lexOracle{src}
	n := len(src)
	for k, t := range ts {
		if t.T == "EOF" {
			if k != len(ts)-1 {
				return "eof-not-last", fmt.Sprintf("EOF token at index %d of %d", k, len(ts))
			}
			if t.S != n+1 || t.E != n+1 {
				return "eof-position", fmt.Sprintf("EOF token at (%d:%d)-(%d:%d), input has %d bytes", t.SL, t.SC, t.EL, t.EC, n)
			}
			continue
		}
		if t.S == 0 || t.E == 0 || t.S > t.E || t.E > n {
			return "span", fmt.Sprintf("token %d %s has range (%d:%d)-(%d:%d) = offsets %d..%d", k, t.T, t.SL, t.SC, t.EL, t.EC, t.S, t.E)
		}
		switch t.T {
		case "STR":
			q := o.ch(t.S)
			if (q != '"' && q != '\'') || o.ch(t.E) != q || t.E <= t.S ||
				!bytes.Equal(t.Lit, unescQuote(src[t.S:t.E-1], q)) {
				return "own-text", fmt.Sprintf("string token %d %q does not match source %q", k, t.Lit, src[t.S-1:t.E])
			}
		case "HTML":
			if !bytes.Equal(t.Lit, o.textOf(t.S, t.E)) {
				return "own-text", fmt.Sprintf("text token %d %q does not match source %q", k, t.Lit, src[t.S-1:t.E])
			}
		default:
			// every other token, the illegal ones included (a single byte, an unterminated string from its quote or an
			// unterminated comment from its "{{--" to the end of the input)
			if !bytes.Equal(t.Lit, src[t.S-1:t.E]) {
				return "own-text", fmt.Sprintf("token %d %s %q does not match source %q", k, t.T, t.Lit, src[t.S-1:t.E])
			}
		}
	}
	for k := 0; k+1 < len(ts); k++ {
		a, b := ts[k], ts[k+1]
		if a.E >= b.S {
			return "order", fmt.Sprintf("token %d %s ends at %d, token %d %s starts at %d", k, a.T, a.E, k+1, b.T, b.S)
		}
		if !o.gapOK(a.E+1, b.S-1, a.T == "HTML", b.T == "HTML") {
			return "gap", fmt.Sprintf("bytes %q between token %d %s and token %d %s belong to no token", src[a.E:b.S-1], k, a.T, k+1, b.T)
		}
	}
	if len(ts) > 0 && ts[0].S > 1 && !o.gapOK(1, ts[0].S-1, true, false) {
		return "gap", fmt.Sprintf("bytes %q before the first token belong to no token", src[:ts[0].S-1])
	}
	// cursor containment: every byte cursor (and the end cursor) lies in exactly the covering token's range
	line, col := 0, 0
	for off := 1; off <= n+1; off++ {
		cover := -1
		for k, t := range ts {
			if t.S <= off && off <= t.E {
				cover = k
			}
		}
		for k, t := range ts {
			in := t.Pos.Contains(uint(line), uint(col))
			if in && k != cover {
				return "contains", fmt.Sprintf("cursor %d:%d (offset %d) is inside token %d %s which does not cover it", line, col, off, k, t.T)
			}
			if !in && k == cover {
				return "contains", fmt.Sprintf("cursor %d:%d (offset %d) is not inside its covering token %d %s", line, col, off, k, t.T)
			}
		}
		if off <= n && src[off-1] == '\n' {
			line++
			col = 0
		} else {
			col++
		}
	}
	return "", ""
}

func sameTokens(m []mtok, r []rtok) (bool, string) {
	for k := 0; k < len(m) || k < len(r); k++ {
		if k >= len(m) {
			return false, fmt.Sprintf("implementation has extra token %d %s %q", k, r[k].T, r[k].Lit)
		}
		if k >= len(r) {
			return false, fmt.Sprintf("implementation lacks token %d %s", k, m[k].T)
		}
		a, b := m[k], r[k]
		if a.T != b.T || !bytes.Equal(codesToBytes(a.Lit), b.Lit) || a.SL != b.SL || a.SC != b.SC || a.EL != b.EL || a.EC != b.EC {
			return false, fmt.Sprintf("token %d: model %s %q (%d:%d)-(%d:%d), implementation %s %q (%d:%d)-(%d:%d)", k,
				a.T, codesToBytes(a.Lit), a.SL, a.SC, a.EL, a.EC, b.T, b.Lit, b.SL, b.SC, b.EL, b.EC)
		}
	}
	return true, ""
}

// evalAsFile writes the bytes to this worker's scratch file and evaluates the file.
func evalAsFile(src []byte) (out string, err error, ok bool) {
	base := os.Getenv("TWH_SCRATCH")
	if base == "" {
		base = os.TempDir()
	}
	path := filepath.Join(base, fmt.Sprintf("c05-w%d.tw", os.Getpid()))
	if werr := os.WriteFile(path, src, 0o644); werr != nil {
		return "", nil, false
	}
	out, err = textwire.EvaluateFile(path, nil)
	return out, err, true
}

func lexFamily(raw json.RawMessage) Result {
	var c lexCase
	if err := json.Unmarshal(raw, &c); err != nil {
		return Result{ID: caseID(raw), Status: "skip", Msg: err.Error()}
	}
	src := codesToBytes(c.Inp)
	id := fmt.Sprint(c.ID)
	if c.ID == nil {
		id = fmt.Sprintf("%q", src)
	}
	res := Result{ID: id, Status: "ok", Tags: c.Tags, Stats: map[string]int{}}
	prop := os.Getenv("TWH_PROP")
	switch prop {
	case "C19":
		// the predicates are evaluated on ALL tokens the lexer hands out, also those after an illegal one; the
		// comparison with the specification's tokens stops at the first illegal token, where the specification stops
		all, capped := lexTokens(string(src), false)
		if capped {
			res.Status, res.Kind, res.Msg = "viol", "hang", "lexer produced tokens without reaching EOF"
			return res
		}
		ts := all
		for i, t := range all {
			if t.T == "ILLEGAL" {
				ts = all[:i+1]
				break
			}
		}
		if k, m := tilingViolation(src, all); k != "" {
			res.Status, res.Kind, res.Msg = "viol", k, m
			last := ts[len(ts)-1]
			res.Tags = append(res.Tags, "last:"+last.T)
			return res
		}
		if c.Toks != nil {
			if same, m := sameTokens(c.Toks, ts); !same {
				res.Status, res.Kind, res.Msg = "drift", "tokens", m
			}
		}
		if len(ts) > 2 {
			res.Stats["nontrivial"] = 1
		}
	case "C05":
		out, err := textwire.EvaluateString(string(src), nil)
		if c.Cls == "simple" {
			res.Stats["nontrivial"] = 1
			want := string(codesToBytes(c.Out))
			if err != nil {
				res.Status, res.Kind, res.Msg = "viol", "wrong-error", "text-only template fails: "+firstLines(err.Error(), 2)
				res.Got = map[string]any{"err": err.Error(), "want": want}
			} else if out != want {
				res.Status, res.Kind, res.Msg = "viol", "wrong-output", fmt.Sprintf("want %q got %q", want, out)
				res.Got = map[string]any{"out": out, "want": want}
			}
		}
		// the same bytes as the content of a file: evaluating a file equals evaluating its content (C18), so the text of a
		// template file reaches the output byte for byte as well
		if res.Status == "ok" {
			if fout, ferr, ok := evalAsFile(src); ok && ((ferr == nil) != (err == nil) || fout != out || (err != nil && err.Error() != ferr.Error())) {
				res.Status, res.Kind = "viol", "file-differs"
				res.Msg = fmt.Sprintf("EvaluateString gives (%q, err=%v), EvaluateFile on a file with the same bytes gives (%q, err=%v)", out, err != nil, fout, ferr != nil)
			}
		}
	case "C08":
		ts, capped := lexAll(string(src))
		if capped {
			res.Status, res.Kind, res.Msg = "viol", "hang", "lexer produced tokens without reaching EOF"
			return res
		}
		_ = ts
		p := parser.New(lexer.New(string(src)), "")
		prog := p.ParseProgram()
		errs := p.Errors()
		if prog == nil && len(errs) == 0 {
			res.Status, res.Kind, res.Msg = "viol", "no-program-no-error", "ParseProgram returned nil without recording an error"
			return res
		}
		for _, e := range errs {
			if e.Line() < 1 {
				res.Status, res.Kind, res.Msg = "viol", "error-without-line", e.String()
				return res
			}
		}
		// (evaluated only when the parser recorded errors: an accepted template may loop for ever by design)
		var err error
		if len(errs) > 0 {
			_, err = textwire.EvaluateString(string(src), nil)
		}
		if len(errs) > 0 && err == nil {
			res.Status, res.Kind, res.Msg = "viol", "errors-ignored", "EvaluateString succeeded although the parser recorded: "+errs[0].String()
			return res
		}
		if c.MustErr {
			res.Stats["nontrivial"] = 1
			if len(errs) == 0 {
				res.Status, res.Kind = "viol", "missing-error"
				res.Msg = "accepted without an error although the specification requires one (" + strings.Join(c.Tags, ", ") + ")"
			}
		}
	default:
		res.Status, res.Msg = "skip", "unknown TWH_PROP "+prop
	}
	return res
}

func init() { families["lex"] = lexFamily }
