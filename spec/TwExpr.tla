-------------------------------- MODULE TwExpr --------------------------------
(***************************************************************************)
(* Expressions of Textwire: abstract syntax, the binding-power table       *)
(* printed in C01, a Pratt parser over token sequences (the expression     *)
(* half of machine P), big-step evaluation (expressions have no side       *)
(* effects), and unparsing with layouts.                                   *)
(***************************************************************************)
EXTENDS TwBuiltins

CONSTANTS DevP     \* deviation switches of the parser, see DevPIntended
DevPIntended == [RightBPFixedSum |-> FALSE,   \* F-01 every right operand is parsed at the additive level
                 AssignAtSum     |-> FALSE]   \* F-02 the value of an assignment is parsed at the additive level
DevPAsCoded  == [RightBPFixedSum |-> TRUE, AssignAtSum |-> TRUE]

(* ------------------------------- syntax ------------------------------- *)
Lit(v, src, c) == [k |-> "lit", val |-> v, src |-> src, c |-> c]
IntL(n)   == Lit(I(n), ToString(n), "num")                 \* n >= 0
FloatL(n, e) == Lit(NormF(n, e), ShowFloat(NormF(n, e)), "num")      \* n >= 0
StrL(s)   == Lit(S(s), "\"" \o s \o "\"", "str")           \* s without characters that need escaping
BoolL(b)  == Lit(B(b), IF b THEN "true" ELSE "false", "word")
NilL      == Lit(Nil, "nil", "word")
Var(n)    == [k |-> "var", n |-> n]
Pre(op, x) == [k |-> "pre", op |-> op, x |-> x]
Post(op, x) == [k |-> "post", op |-> op, x |-> x]
Bin(op, l, r) == [k |-> "bin", op |-> op, l |-> l, r |-> r]
Tern(c, a, b) == [k |-> "tern", c |-> c, a |-> a, b |-> b]
Idx(x, i) == [k |-> "idx", x |-> x, i |-> i]
Dot(x, f) == [k |-> "dot", x |-> x, f |-> f]
Call(x, f, args) == [k |-> "call", x |-> x, f |-> f, args |-> args]
ArrL(es) == [k |-> "arr", es |-> es]
ObjL(ps) == [k |-> "obj", ps |-> ps]       \* sequence of [key |-> key, ex |-> expression]

BinOps == {"+", "-", "*", "/", "%", "==", "!=", "<", ">", "<=", ">="}

\* the precedence order printed in C01:
\* ternary < equality < comparison < additive < multiplicative < member access < prefix < index < postfix
LOWEST == 1  TERNARY == 2  EQUALS == 3  LESSGREATER == 4  SUM == 5  PRODUCT == 6  MEMBER == 7  PREFIX == 8  INDEX == 10
POSTFIX == 11
BinPrec(op) == CASE op \in {"==", "!="} -> EQUALS [] op \in {"<", ">", "<=", ">="} -> LESSGREATER
                 [] op \in {"+", "-"} -> SUM [] op \in {"*", "/", "%"} -> PRODUCT

(* ------------------------------ evaluation ------------------------------ *)
\* a scope chain is a sequence of scopes, innermost first; a scope is a sequence of [n |-> name, v |-> value]
RECURSIVE LookupIn(_, _)
LookupIn(scope, n) == IF scope = <<>> THEN Unspec
                      ELSE IF scope[Len(scope)].n = n THEN scope[Len(scope)].v       \* the latest binding wins
                      ELSE LookupIn(SubSeq(scope, 1, Len(scope) - 1), n)
RECURSIVE Lookup(_, _)
Lookup(sc, n) == IF sc = <<>> THEN Err("identifier not found")
                 ELSE LET v == LookupIn(sc[1], n) IN IF IsUnspec(v) THEN Lookup(Tail(sc), n) ELSE v
Visible(sc, n) == ~IsErr(Lookup(sc, n))

RECURSIVE Ev(_, _)
RECURSIVE EvList(_, _)
EvList(es, sc) ==      \* [ok |-> TRUE, vs] or [ok |-> FALSE, bad]: the first bad result, left to right
  IF es = <<>> THEN [ok |-> TRUE, vs |-> <<>>]
  ELSE LET v == Ev(es[1], sc) IN
       IF Bad(v) THEN [ok |-> FALSE, bad |-> v]
       ELSE LET rest == EvList(Tail(es), sc) IN
            IF rest.ok THEN [ok |-> TRUE, vs |-> <<v>> \o rest.vs] ELSE rest
\* values of literal tokens in token-first families (the Pratt parser returns them as [k |-> "littok", src])
LitVal(src) == CASE src = "0" -> I(0) [] src = "1" -> I(1) [] src = "2" -> I(2) [] src = "3" -> I(3) [] src = "4" -> I(4)
                 [] src = "5" -> I(5) [] src = "6" -> I(6) [] src = "7" -> I(7) [] src = "8" -> I(8) [] src = "9" -> I(9)
                 [] src = "0.5" -> F(1, 1) [] src = "1.5" -> F(3, 1) [] src = "2.5" -> F(5, 1) [] src = "2.0" -> F(2, 0)
                 [] src = "0.25" -> F(1, 2) [] src = "\"a\"" -> S("a") [] src = "\"b\"" -> S("b") [] src = "\"\"" -> S("")
                 [] OTHER -> Unspec
Ev(e, sc) ==
  CASE e.k = "lit" -> e.val
    [] e.k = "littok" -> LitVal(e.src)
    [] e.k = "var" -> Lookup(sc, e.n)
    [] e.k = "pre" -> LET x == Ev(e.x, sc) IN IF Bad(x) THEN x ELSE IF e.op = "-" THEN Neg(x) ELSE Not(x)
    [] e.k = "post" -> LET x == Ev(e.x, sc) IN IF Bad(x) THEN x ELSE Postfix(e.op, x)
    [] e.k = "bin" -> LET a == Ev(e.l, sc) IN IF Bad(a) THEN a
                      ELSE LET b == Ev(e.r, sc) IN IF Bad(b) THEN b ELSE Infix(e.op, a, b)
    [] e.k = "tern" -> LET c == Ev(e.c, sc) IN IF Bad(c) THEN c
                       ELSE IF Truthy(c) THEN Ev(e.a, sc) ELSE Ev(e.b, sc)
    [] e.k = "idx" -> LET a == Ev(e.x, sc) IN IF Bad(a) THEN a
                      ELSE LET i == Ev(e.i, sc) IN IF Bad(i) THEN i ELSE Index(a, i)
    [] e.k = "dot" -> LET a == Ev(e.x, sc) IN IF Bad(a) THEN a ELSE Prop(a, e.f)
    [] e.k = "call" -> LET a == Ev(e.x, sc) IN IF Bad(a) THEN a
                       ELSE LET as == EvList(e.args, sc) IN IF ~as.ok THEN as.bad ELSE CallFn(e.f, a, as.vs)
    [] e.k = "arr" -> LET r == EvList(e.es, sc) IN IF ~r.ok THEN r.bad ELSE A(r.vs)
    [] e.k = "obj" -> LET vs == [i \in 1..Len(e.ps) |-> Ev(e.ps[i].ex, sc)] IN
                      \* entries are independent; which failing entry is reported is not fixed here (C14 asks for
                      \* determinism only), but if any entry must fail the literal fails
                      IF \E i \in 1..Len(vs) : IsErr(vs[i]) THEN Err("object entry")
                      ELSE IF \E i \in 1..Len(vs) : IsUnspec(vs[i]) THEN Unspec
                      ELSE O([i \in 1..Len(vs) |-> [pk |-> e.ps[i].key, pv |-> vs[i]]])

(* ------------------------------- tokens ------------------------------- *)
T(c, s) == [c |-> c, s |-> s]
LP == T("lp", "(")  RP == T("rp", ")")
Par(ts) == <<LP>> \o ts \o <<RP>>

Level(e) == CASE e.k = "bin" -> BinPrec(e.op) [] e.k = "tern" -> TERNARY [] e.k = "pre" -> PREFIX
              [] e.k = "post" -> POSTFIX [] e.k = "idx" -> INDEX [] e.k \in {"dot", "call"} -> MEMBER
              [] OTHER -> 99

RECURSIVE Toks(_)
RECURSIVE ToksList(_)
RECURSIVE ToksPairs(_)
Wrap(e, need) == IF need THEN Par(Toks(e)) ELSE Toks(e)
ToksList(es) == IF es = <<>> THEN <<>> ELSE IF Len(es) = 1 THEN Toks(es[1])
                ELSE Toks(es[1]) \o <<T("comma", ",")>> \o ToksList(Tail(es))
ToksPairs(ps) == IF ps = <<>> THEN <<>>
                 ELSE <<T("key", ps[1].key), T("colon", ":")>> \o Toks(ps[1].ex)
                      \o (IF Len(ps) = 1 THEN <<>> ELSE <<T("comma", ",")>> \o ToksPairs(Tail(ps)))
\* minimal parentheses under the C01 table with left associativity
Toks(e) ==
  CASE e.k = "lit" -> <<T(e.c, e.src)>>
    [] e.k = "littok" -> <<T("num", e.src)>>
    [] e.k = "var" -> <<T("word", e.n)>>
    [] e.k = "pre" -> <<T("pre", e.op)>> \o Wrap(e.x, Level(e.x) < PREFIX)
    [] e.k = "post" -> Wrap(e.x, Level(e.x) < POSTFIX) \o <<T("post", e.op)>>
    [] e.k = "bin" -> Wrap(e.l, Level(e.l) < BinPrec(e.op)) \o <<T("op", e.op)>>
                      \o Wrap(e.r, Level(e.r) <= BinPrec(e.op))
    [] e.k = "tern" -> Wrap(e.c, Level(e.c) <= TERNARY) \o <<T("q", "?")>> \o Wrap(e.a, Level(e.a) <= TERNARY)
                       \o <<T("colon", ":")>> \o Toks(e.b)
    [] e.k = "idx" -> Wrap(e.x, Level(e.x) < INDEX) \o <<T("lb", "[")>> \o Toks(e.i) \o <<T("rb", "]")>>
    [] e.k = "dot" -> Wrap(e.x, Level(e.x) < MEMBER) \o <<T("dot", "."), T("fld", e.f)>>
    [] e.k = "call" -> Wrap(e.x, Level(e.x) < MEMBER) \o <<T("dot", "."), T("fld", e.f), LP>>
                       \o ToksList(e.args) \o <<RP>>
    [] e.k = "arr" -> <<T("lb", "[")>> \o ToksList(e.es) \o <<T("rb", "]")>>
    [] e.k = "obj" -> <<T("lc", "{")>> \o ToksPairs(e.ps) \o <<T("rc", "}")>>

\* full parentheses: every operator application is wrapped
RECURSIVE ToksFull(_)
ToksFull(e) ==
  CASE e.k = "pre" -> Par(<<T("pre", e.op)>> \o ToksFull(e.x))
    [] e.k = "post" -> Par(ToksFull(e.x) \o <<T("post", e.op)>>)
    [] e.k = "bin" -> Par(ToksFull(e.l) \o <<T("op", e.op)>> \o ToksFull(e.r))
    [] e.k = "tern" -> Par(ToksFull(e.c) \o <<T("q", "?")>> \o ToksFull(e.a) \o <<T("colon", ":")>> \o ToksFull(e.b))
    [] e.k = "idx" -> Par(ToksFull(e.x) \o <<T("lb", "[")>> \o ToksFull(e.i) \o <<T("rb", "]")>>)
    [] e.k = "dot" -> Par(ToksFull(e.x) \o <<T("dot", "."), T("fld", e.f)>>)
    [] OTHER -> Toks(e)

(* --------------------------- layouts (C01) --------------------------- *)
Sym == {"+", "-", "++", "--", "=", "==", "!=", "<", "<=", ">", ">=", "!"}
Wordy(t) == t.c \in {"word", "num", "fld", "key"}
NeedSpace(a, b) == (Wordy(a) /\ Wordy(b)) \/ (a.s \in Sym /\ b.s \in Sym)
RECURSIVE JoinToks(_, _)
JoinToks(ts, lay) ==     \* lay: "sp" single spaces, "tight" no spaces unless needed, "nl" newlines, "wide" mixed blanks
  IF ts = <<>> THEN ""
  ELSE IF Len(ts) = 1 THEN ts[1].s
  ELSE ts[1].s \o (CASE lay = "sp" -> " "
                     [] lay = "nl" -> "\n"
                     [] lay = "wide" -> (IF Len(ts) % 2 = 0 THEN "  " ELSE "\t\n ")
                     [] lay = "tight" -> (IF NeedSpace(ts[1], ts[2]) THEN " " ELSE ""))
       \o JoinToks(Tail(ts), lay)
\* redundant parentheses around every operand token
RECURSIVE Redundant(_, _)
Redundant(ts, prevDot) ==
  IF ts = <<>> THEN <<>>
  ELSE LET t == ts[1] IN
       (IF t.c \in {"word", "num", "str"} THEN <<LP, t, RP>> ELSE <<t>>) \o Redundant(Tail(ts), t.c = "dot")
Layouts == {"sp", "tight", "nl", "wide", "par", "full"}
Source(e, lay) == CASE lay = "par" -> JoinToks(Par(Redundant(Toks(e), FALSE)), "sp")
                    [] lay = "full" -> JoinToks(ToksFull(e), "sp")
                    [] OTHER -> JoinToks(Toks(e), lay)
Open(lay) == IF lay = "tight" THEN "{{" ELSE IF lay = "nl" THEN "{{\n" ELSE "{{ "
Close(lay) == IF lay = "tight" THEN "}}" ELSE IF lay = "nl" THEN "\n}}" ELSE " }}"
PrintSrc(e, lay) == Open(lay) \o Source(e, lay) \o Close(lay)
Newlines(lay, ntoks) == IF lay = "nl" THEN ntoks + 1 ELSE IF lay = "wide" THEN (ntoks - 1) \div 2 ELSE 0

(* ------------------- the Pratt parser (machine P, expressions) ------------------- *)
\* parser/parser.go parseExpression: prefix function, then a loop that consumes infix operators while the
\* binding power of the next token exceeds the caller's.  Results are [ok, n, j]: node and index of its last token.
TokPrec(t) == CASE t.c = "q" -> TERNARY [] t.c = "op" -> BinPrec(t.s) [] t.c = "dot" -> MEMBER
                [] t.c = "lb" -> INDEX [] t.c = "post" -> POSTFIX [] OTHER -> LOWEST
RightBP(op) == IF DevP.RightBPFixedSum THEN SUM ELSE BinPrec(op)
Fail == [ok |-> FALSE]
At(ts, i) == IF i >= 1 /\ i <= Len(ts) THEN ts[i] ELSE T("end", "")

RECURSIVE PExpr(_, _, _)
RECURSIVE PLoop(_, _, _, _)
RECURSIVE PList(_, _, _)
RECURSIVE PPairs(_, _)
RECURSIVE PPrefix(_, _)
\* comma-separated expressions starting at i up to the closing token class; [ok, ns, j] with j at the closer
PList(ts, i, closer) ==
  IF At(ts, i).c = closer THEN [ok |-> TRUE, ns |-> <<>>, j |-> i]
  ELSE LET r == PExpr(ts, i, LOWEST) IN
       IF ~r.ok THEN Fail
       ELSE IF At(ts, r.j + 1).c = "comma"
            THEN LET rest == PList(ts, r.j + 2, closer) IN
                 IF ~rest.ok THEN Fail ELSE [ok |-> TRUE, ns |-> <<r.n>> \o rest.ns, j |-> rest.j]
            ELSE IF At(ts, r.j + 1).c = closer THEN [ok |-> TRUE, ns |-> <<r.n>>, j |-> r.j + 1] ELSE Fail
PPairs(ts, i) ==
  IF At(ts, i).c = "rc" THEN [ok |-> TRUE, ps |-> <<>>, j |-> i]
  ELSE IF At(ts, i).c # "key" \/ At(ts, i + 1).c # "colon" THEN Fail
  ELSE LET r == PExpr(ts, i + 2, LOWEST) IN
       IF ~r.ok THEN Fail
       ELSE IF At(ts, r.j + 1).c = "comma"
            THEN LET rest == PPairs(ts, r.j + 2) IN
                 IF ~rest.ok THEN Fail
                 ELSE [ok |-> TRUE, ps |-> <<[key |-> ts[i].s, ex |-> r.n]>> \o rest.ps, j |-> rest.j]
            ELSE IF At(ts, r.j + 1).c = "rc"
                 THEN [ok |-> TRUE, ps |-> <<[key |-> ts[i].s, ex |-> r.n]>>, j |-> r.j + 1] ELSE Fail
LitOf(t) == IF t.s = "true" THEN BoolL(TRUE) ELSE IF t.s = "false" THEN BoolL(FALSE)
            ELSE IF t.s = "nil" THEN NilL ELSE Var(t.s)
PPrefix(ts, i) ==
  LET t == At(ts, i) IN
  CASE t.c = "word" -> [ok |-> TRUE, n |-> LitOf(t), j |-> i]
    [] t.c \in {"num", "str"} -> [ok |-> TRUE, n |-> [k |-> "littok", src |-> t.s], j |-> i]
    [] t.c = "pre" -> LET r == PExpr(ts, i + 1, PREFIX) IN
                      IF r.ok THEN [ok |-> TRUE, n |-> Pre(t.s, r.n), j |-> r.j] ELSE Fail
    [] t.c = "lp" -> LET r == PExpr(ts, i + 1, LOWEST) IN
                     IF r.ok /\ At(ts, r.j + 1).c = "rp" THEN [ok |-> TRUE, n |-> r.n, j |-> r.j + 1] ELSE Fail
    [] t.c = "lb" -> LET r == PList(ts, i + 1, "rb") IN
                     IF r.ok THEN [ok |-> TRUE, n |-> ArrL(r.ns), j |-> r.j] ELSE Fail
    [] t.c = "lc" -> LET r == PPairs(ts, i + 1) IN
                     IF r.ok THEN [ok |-> TRUE, n |-> ObjL(r.ps), j |-> r.j] ELSE Fail
    [] OTHER -> Fail
PExpr(ts, i, prec) ==
  LET p == PPrefix(ts, i) IN
  IF ~p.ok THEN Fail ELSE PLoop(ts, p.n, p.j, prec)
PLoop(ts, left, j, prec) ==
  LET nx == At(ts, j + 1) IN
  IF nx.c \in {"rp", "end", "semi"} \/ ~(prec < TokPrec(nx)) THEN [ok |-> TRUE, n |-> left, j |-> j]
  ELSE CASE nx.c = "op" -> LET r == PExpr(ts, j + 2, RightBP(nx.s)) IN
                           IF r.ok THEN PLoop(ts, Bin(nx.s, left, r.n), r.j, prec) ELSE Fail
         [] nx.c = "q" -> LET a == PExpr(ts, j + 2, TERNARY) IN
                          IF ~a.ok \/ At(ts, a.j + 1).c # "colon" THEN Fail
                          ELSE LET b == PExpr(ts, a.j + 2, LOWEST) IN
                               IF b.ok THEN PLoop(ts, Tern(left, a.n, b.n), b.j, prec) ELSE Fail
         [] nx.c = "lb" -> LET r == PExpr(ts, j + 2, LOWEST) IN
                           IF r.ok /\ At(ts, r.j + 1).c = "rb" THEN PLoop(ts, Idx(left, r.n), r.j + 1, prec) ELSE Fail
         [] nx.c = "post" -> PLoop(ts, Post(nx.s, left), j + 1, prec)
         [] nx.c = "dot" -> IF At(ts, j + 2).c # "fld" THEN Fail
                            ELSE IF At(ts, j + 3).c = "lp"
                                 THEN LET r == PList(ts, j + 4, "rp") IN
                                      IF r.ok THEN PLoop(ts, Call(left, ts[j + 2].s, r.ns), r.j, prec) ELSE Fail
                                 ELSE PLoop(ts, Dot(left, ts[j + 2].s), j + 2, prec)
\* Parse a complete token sequence. Literal tokens come back as [k |-> "littok", src]; Strip maps a tree to the same
\* shape so that trees can be compared structurally (RoundTrip).
Parse(ts) == LET r == PExpr(ts, 1, LOWEST) IN IF r.ok /\ r.j = Len(ts) THEN r.n ELSE Fail
RECURSIVE Strip(_)
Strip(e) ==
  CASE e.k = "lit" -> (IF e.c = "word" THEN e ELSE [k |-> "littok", src |-> e.src])
    [] e.k = "littok" -> e
    [] e.k = "var" -> e
    [] e.k = "pre" -> Pre(e.op, Strip(e.x))
    [] e.k = "post" -> Post(e.op, Strip(e.x))
    [] e.k = "bin" -> Bin(e.op, Strip(e.l), Strip(e.r))
    [] e.k = "tern" -> Tern(Strip(e.c), Strip(e.a), Strip(e.b))
    [] e.k = "idx" -> Idx(Strip(e.x), Strip(e.i))
    [] e.k = "dot" -> Dot(Strip(e.x), e.f)
    [] e.k = "call" -> Call(Strip(e.x), e.f, [i \in 1..Len(e.args) |-> Strip(e.args[i])])
    [] e.k = "arr" -> ArrL([i \in 1..Len(e.es) |-> Strip(e.es[i])])
    [] e.k = "obj" -> ObjL([i \in 1..Len(e.ps) |-> [key |-> e.ps[i].key, ex |-> Strip(e.ps[i].ex)]])
\* C01, design level: the tree is recovered from each of its layouts' token sequences
RoundTrip(e) == /\ Parse(Toks(e)) = Strip(e)
                /\ Parse(ToksFull(e)) = Strip(e)
                /\ Parse(Par(Redundant(Toks(e), FALSE))) = Strip(e)
=============================================================================
