------------------------------- MODULE MC_Api -------------------------------
(* C15: every interleaving of G goroutines, each issuing one render operation; C16: every history of up to       *)
(* MaxHist operations of one goroutine; C17: every configuration x page through Response.                          *)
(* At every terminal state one replayable record is printed: configuration, operations, schedule, expected results. *)
EXTENDS TwApi, Json

CONSTANTS Mode,      \* "interleave" | "history" | "historyd" (histories over operations that differ in the SHAPE of their data) | "response"
          MaxHist, Emit_
VARIABLES hist
vars == <<avars, hist>>

Hist == Mode \in {"history", "historyd", "historydc"}
\* historyd: the data holds a value of one of two different struct types that are both called "row", or the same
\* template is rendered with a receiver of another type than before (string, array, integer)
OpsD == {Op("String", "ok"), Op("String", "bad"), Op("String", "row1"), Op("String", "row2"), Op("EvalString", "row1"), Op("EvalString", "row2"),
         Op("String", "polyS"), Op("String", "polyA"), Op("String", "polyI"), Op("Response", "polyA"), Op("Response", "polyS"),
         Op("String", "ok2"), Op("String", "bare"), Op("String", "static"), Op("String", "nested-use"), Op("String", "dotS"), Op("String", "dotM"), Op("String", "lastA"), Op("String", "lastB"), Op("String", "lastC"), Op("String", "floatdec"), Op("String", "okbad"), Op("Response", "okbad"), Op("EvalString", "illegal"), Op("EvalString", "customfn"), Op("EvalString", "chanfn"), Op("String", "usesfn"), Op("String", "argOk"), Op("String", "argBad"), Op("String", "shared"), Op("EvalString", "sameprintI"), Op("EvalString", "sameprintS")}      \* pages of one layout: with inserts, with other inserts, without any
\* (historydc: longer histories over a core of the historyd operations)
OpsDCore == {Op("String", "ok"), Op("String", "bad"), Op("String", "row1"), Op("String", "polyS"), Op("String", "polyA"), Op("String", "lastA"), Op("String", "lastC"),
             Op("String", "floatdec"), Op("String", "okbad"), Op("EvalString", "sameprintI"), Op("EvalString", "chanfn"), Op("String", "usesfn"), Op("String", "argOk"), Op("String", "argBad"), Op("String", "shared")}
Ops15 == IF Mode = "historyd" THEN OpsD ELSE IF Mode = "historydc" THEN OpsDCore ELSE
         {Op("String", "ok"), Op("String", "bad"), Op("String", "missing"), Op("Response", "ok"), Op("Response", "bad"),
          Op("Response", "missing"), Op("EvalString", "ok"), Op("EvalString", "bad"), Op("EvalFile", "ok")}
         \cup (IF Mode # "response" THEN {Op("String", "bad-in-loop"), Op("String", "ok2"), Op("String", "bare"), Op("EvalString", "chanfn"), Op("EvalString", "customfn")} ELSE {})
         \cup (IF Mode = "history" THEN {Op("EvalString", "illegal")} ELSE {})     \* fails inside a loop after some passes produced output
         \cup (IF Mode = "response" THEN {Op("Response", pg) : pg \in NotTemplates} ELSE {})
         \cup (IF Mode = "history" THEN {Op("String", "layouts/main"), Op("String", "/ok"), Op("Response", "layouts/../ok")} ELSE {})
         \cup (IF Mode = "response" THEN {Op("Response", pg) : pg \in {"bad-in-component", "bad-in-layout", "bad-at-start", "bad-in-loop", "bad-in-slot", "bad-in-insert", "bad-in-array", "bad-in-args", "bad-in-object", "bad-in-for-cond", "bad-in-elseif", "bad-in-each-else", "bad-in-for-else", "bad-lt", "bad-in-assign", "bad-in-unused-arg", "bad-in-shadowed-arg", "bad-after-long"}} ELSE {})
         \cup (IF Mode = "history" THEN {Op("String", "setvar"), Op("String", "getvar"), Op("EvalString", "setvar"), Op("EvalString", "getvar"),
                                         Op("Response", "getvar")} ELSE {})
Cfgs == IF Mode \in {"historyd", "historydc"} THEN {[dir |-> "t", ext |-> ".tw", errorPage |-> "", debug |-> FALSE]}
        ELSE {[dir |-> "t", ext |-> ".tw", errorPage |-> e, debug |-> d] : e \in {"", "err"}, d \in BOOLEAN}

\* response mode: the application may change the debug mode with Configure AFTER the templates were loaded; what Response
\* writes follows the mode at the time of the call (the pseudo-operation at the head of the history carries the load-time
\* configuration, cfg is the current one)
Reconf(c, r) == IF r = "none" THEN c ELSE [c EXCEPT !.debug = (r = "on")]
Init == IF Mode = "response"
        THEN \E c \in Cfgs, r \in {"none", "on", "off"} :
               /\ ApiInit(Reconf(c, r))
               /\ hist = IF r = "none" THEN <<>> ELSE <<[g |-> 0, op |-> Op("Configure", r), load |-> c]>>
        ELSE /\ \E c \in Cfgs : ApiInit(c)
             /\ hist = <<>>
AllDone == \A g \in G : pc[g] = "done"
Started(g) == pc[g] # "idle" \/ Len(SelectSeq(hist, LAMBDA h : h.g = g)) > 0
Next == \/ \E g \in G : \E o \in Ops15 :
             /\ Begin(g, o)
             /\ (Mode = "interleave" => ~Started(g))
             /\ (Mode = "response" => o.k = "Response" /\ ~Started(g))
             /\ (Hist => Len(hist) < MaxHist)
             /\ hist' = Append(hist, [g |-> g, op |-> o])
        \/ \E g \in G : StepOf(g) /\ UNCHANGED hist
        \/ \E g \in G : Hist /\ Len(hist) < MaxHist /\ Again(g) /\ UNCHANGED hist
Spec == Init /\ [][Next]_vars

\* the results of all operations completed so far are kept in the record through hist/res at print time
Record == [cfg |-> IF hist # <<>> /\ hist[1].g = 0 THEN hist[1].load ELSE cfg, errpage |-> ErrPageExists, mode |-> IF Hist THEN "history" ELSE Mode,
           ops |-> hist,
           expok |-> [k \in 1..Len(hist) |-> IF hist[k].op.k = "Configure" THEN TRUE ELSE Solo(hist[k].op, cfg, ErrPageExists).ok],
           sched |-> sched,
           expect |-> [g \in G |-> IF op[g].k = "Response" THEN Solo(op[g], cfg, ErrPageExists).body ELSE [page |-> "n/a", shows |-> {}]]]
Terminal == IF Hist THEN AllDone /\ Len(hist) >= 1 ELSE AllDone /\ \A g \in G : Started(g)
Gen == (Terminal /\ Emit_) => PrintT(ToJson(Record))
=============================================================================
