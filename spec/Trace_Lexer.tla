----------------------------- MODULE Trace_Lexer -----------------------------
(***************************************************************************)
(* Trace validation of machine L.  The traces are recorded from the REAL   *)
(* lexer (harness `lextrace`): for every input the sequence of tokens      *)
(* (type, literal, start/end line and column) and, after each token, the   *)
(* lexer's private mode state read through the verif hook                  *)
(* Lexer.VerifState: isHTML, isDirective, the two nesting counters.   *)
(*                                                                         *)
(* For each trace TLC (1) steps the specification's lexer over the same    *)
(* input and compares token and mode state after every NextToken, and      *)
(* (2) evaluates the C19 predicates (Tiling) on the LOGGED tokens.  A      *)
(* verdict record per trace is printed; nothing aborts the run, so that    *)
(* every trace is examined.                                                *)
(***************************************************************************)
EXTENDS TwLexer, Json, SequencesExt

CONSTANTS TracePath
Traces == ndJsonDeserialize(TracePath)

VARIABLES tr,      \* index of the current trace
          l,       \* index of the next logged token
          drift,   \* first disagreement between model and log in this trace, or <<>>
          ptab,    \* ptab[k] = <<line, col>> of offset k (1..N+1) for the current input
          report   \* verdict of the trace that has just been finished, or <<>>
tvars == <<lexvars, tr, l, drift, ptab, report>>

TT == <<"ILLEGAL","EOF","IDENT","HTML","INT","FLOAT","STR","ADD","SUB","MUL","DIV","MOD","INC","DEC","NOT","ASSIGN","EQ","NOT_EQ","LTHAN","GTHAN","LTHAN_EQ","GTHAN_EQ","LBRACES","RBRACES","LBRACE","RBRACE","LPAREN","RPAREN","LBRACKET","RBRACKET","QUESTION","COLON","COMMA","DOT","SEMI","TRUE","FALSE","NIL","IN","IF","ELSE","ELSE_IF","END","FOR","USE","EACH","BREAK_IF","CONTINUE_IF","INSERT","RESERVE","BREAK","CONTINUE","COMPONENT","SLOT","DUMP">>

PosTable(input) == LET n == Len(input)
                       RECURSIVE Build(_, _, _, _)
                       Build(k, line, col, acc) ==
                         IF k > n + 1 THEN acc
                         ELSE LET acc2 == Append(acc, <<line, col>>) IN
                              IF k <= n /\ input[k] = 10 THEN Build(k + 1, line + 1, 0, acc2) ELSE Build(k + 1, line, col + 1, acc2)
                   IN Build(1, 0, 0, <<>>)
\* offset of a logged (line, col); 0 when no byte of the input (nor its end) has that position
OffsetOf(line, col) == IF \E k \in 1..Len(ptab) : ptab[k] = <<line, col>>
                       THEN CHOOSE k \in 1..Len(ptab) : ptab[k] = <<line, col>> ELSE 0
\* a logged token in the specification's vocabulary
Logged(r) == [t |-> TT[r.t + 1], lit |-> r.lit, s |-> OffsetOf(r.sl, r.sc), e |-> OffsetOf(r.el, r.ec)]
LoggedToks(k) == [i \in 1..Len(Traces[k].toks) |-> Logged(Traces[k].toks[i])]
\* literal of an ILLEGAL token is not fixed by any property (see DESIGN.md): compared on type and range only
SameTok(a, b) == a.t = b.t /\ a.s = b.s /\ a.e = b.e /\ (a.t = "ILLEGAL" \/ a.lit = b.lit)

TraceInit == /\ tr = 1 /\ l = 1 /\ drift = <<>> /\ report = <<>>
             /\ ptab = PosTable(Traces[1].inp)
             /\ LexInit(Traces[1].inp)

\* one NextToken of the implementation against one Step of the specification
TraceStep ==
  /\ l <= Len(Traces[tr].toks)
  /\ ~done
  /\ Step
  /\ LET ev == Traces[tr].toks[l]
         got == Logged(ev)
         exp == toks'[Len(toks')]
         stateOK == ev.html = html' /\ ev.dir = isDir' /\ ev.parens = parens' /\ ev.braces = braces'
     IN drift' = IF drift # <<>> THEN drift
                 ELSE IF ~SameTok(exp, got) THEN <<"token", l, exp, got>>
                 ELSE IF ~stateOK /\ ~done' THEN <<"mode-state", l, [html |-> html', dir |-> isDir', parens |-> parens', braces |-> braces'],
                                                   [html |-> ev.html, dir |-> ev.dir, parens |-> ev.parens, braces |-> ev.braces]>>
                 ELSE <<>>
  /\ l' = l + 1 /\ report' = <<>> /\ UNCHANGED <<tr, ptab>>
\* the implementation produced more tokens than the specification: consume the rest of the log
TraceExtra ==
  /\ l <= Len(Traces[tr].toks) /\ done
  /\ drift' = IF drift # <<>> THEN drift ELSE <<"extra-token", l>>
  /\ l' = Len(Traces[tr].toks) + 1 /\ report' = <<>>
  /\ UNCHANGED <<lexvars, tr, ptab>>

Verdict(k) ==
  LET ts == LoggedToks(k)
      badpos == \E i \in 1..Len(ts) : ts[i].s = 0 \/ ts[i].e = 0 IN
  [trace |-> k, id |-> Traces[k].id, ntoks |-> Len(ts),
   c19 |-> IF badpos THEN "position-out-of-range"
           ELSE IF ~SpanOK(ts) THEN "span" ELSE IF ~Ordered(ts) THEN "order" ELSE IF ~OwnText(ts) THEN "own-text"
           ELSE IF ~GapsBlank(ts) THEN "gap" ELSE IF ~EOFAtEnd(ts) THEN "eof-position" ELSE "ok",
   ended |-> IF Len(ts) = 0 THEN "none" ELSE ts[Len(ts)].t,
   drift |-> IF drift # <<>> THEN drift ELSE IF ~done THEN <<"missing-token", l>> ELSE <<>>]

\* the log of this trace is exhausted: emit its verdict and move to the next trace
TraceReset ==
  /\ l > Len(Traces[tr].toks)
  /\ report' = Verdict(tr)
  /\ IF tr < Len(Traces)
     THEN /\ tr' = tr + 1 /\ l' = 1 /\ drift' = <<>>
          /\ ptab' = PosTable(Traces[tr + 1].inp)
          /\ inp' = Traces[tr + 1].inp /\ p' = 1 /\ html' = TRUE /\ isDir' = FALSE /\ parens' = 0
          /\ braces' = 0 /\ toks' = <<>> /\ done' = FALSE
     ELSE /\ tr' = tr + 1 /\ l' = 1 /\ UNCHANGED <<drift, ptab, lexvars>>
Finished == tr > Len(Traces)
TraceNext == ~Finished /\ (TraceStep \/ TraceExtra \/ TraceReset)
TraceSpec == TraceInit /\ [][TraceNext]_tvars

Gen == report # <<>> => PrintT(ToJson(report))
\* every line of every trace was consumed (a trace spec that stops early would silently accept anything)
AllConsumed == TLCGet("stats").diameter >= Len(Traces)
=============================================================================
