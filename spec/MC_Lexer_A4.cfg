CONSTANTS
  Dev <- DevIntended
  Alphabet <- AlphaA
  MaxLen = 4
  Emit_ = FALSE
SPECIFICATION Spec
INVARIANTS InvTiling InvNoPanic InvCursor Passthrough Gen
PROPERTIES Progress Terminates
CHECK_DEADLOCK FALSE
