------------------------------ MODULE Trace_Api ------------------------------
(***************************************************************************)
(* Trace validation of machine A's shared state.  The trace is recorded    *)
(* by the verif hooks of package textwire (VERIF_API_TRACE): one line per  *)
(* hook point with a snapshot of the package-level state                   *)
(* (usesTemplates, the configuration fields, the registered names).        *)
(* Sources: the repository's own test suite run with -tags verif, and the  *)
(* harness's history runs.                                                 *)
(*                                                                         *)
(* Each hook point is an action of machine A: render operations            *)
(* (String, Response, EvaluateString, EvaluateFile and the gate points     *)
(* inside them) leave the shared state unchanged (C16 RenderFramesState);  *)
(* NewTemplate sets the mode flag and merges the configuration with sticky *)
(* fields; Register<T>Func adds at most one name to its own type (C20).    *)
(* The first rejected line is reported, with the state the model was in.   *)
(***************************************************************************)
EXTENDS Integers, Sequences, FiniteSets, TLC, Json

CONSTANTS TracePath
Trace == ndJsonDeserialize(TracePath)

VARIABLES st, l, bad, pending    \* pending: Configure has been entered, its write has not been observed yet
vars == <<st, l, bad, pending>>

Types == {"str", "arr", "int", "float", "bool"}
St0 == [usesTemplates |-> FALSE, dir |-> "templates", ext |-> ".tw.html", errorPage |-> "", debug |-> FALSE,
        funcs |-> [t \in Types |-> <<>>]]
Names(s, t) == {s.funcs[t][i] : i \in 1..Len(s.funcs[t])}
SameCfg(a, b) == a.dir = b.dir /\ a.ext = b.ext /\ a.errorPage = b.errorPage /\ a.debug = b.debug
SameFuncs(a, b) == \A t \in Types : Names(a, t) = Names(b, t)
Same(a, b) == a.usesTemplates = b.usesTemplates /\ SameCfg(a, b) /\ SameFuncs(a, b)

RenderPoints == {"String.exit", "Response.exit", "EvaluateString.exit", "EvaluateFile.exit",
                 "EvaluateString.writeMode", "EvaluateFile.writeMode", "getFullPath.readMode", "Configure.writeMode"}
RegType(p) == CASE p = "RegisterStrFunc.exit" -> "str" [] p = "RegisterArrFunc.exit" -> "arr" [] p = "RegisterIntFunc.exit" -> "int"
                [] p = "RegisterFloatFunc.exit" -> "float" [] p = "RegisterBoolFunc.exit" -> "bool" [] OTHER -> "none"

\* textwire.Configure (called by NewTemplate): sets the mode flag, merges the configuration with sticky fields
ConfigureLegal(old, new) == /\ new.usesTemplates
                            /\ SameFuncs(old, new)
                            /\ new.dir # "" /\ new.ext # ""                  \* empty fields keep the previous value
                            /\ (new.errorPage = "" => old.errorPage = "")    \* a configured error page is sticky
\* is `new` a legal successor of `old` at hook point p?  The hook in Configure fires BEFORE its write, so the write is
\* a silent step that becomes visible at the next event (grain of atomicity: NewTemplate = Configure ; load ; exit).
Legal(p, old, new) ==
  CASE p \in RenderPoints \cup {"NewTemplate.exit"} -> Same(old, new)
    [] RegType(p) # "none" -> /\ old.usesTemplates = new.usesTemplates /\ SameCfg(old, new)
                              /\ \A t \in Types \ {RegType(p)} : Names(old, t) = Names(new, t)
                              /\ Names(old, RegType(p)) \subseteq Names(new, RegType(p))
                              /\ Cardinality(Names(new, RegType(p)) \ Names(old, RegType(p))) <= 1
    [] OTHER -> FALSE

Init == st = St0 /\ l = 1 /\ bad = <<>> /\ pending = FALSE
Next == /\ l <= Len(Trace) /\ bad = <<>>
        /\ LET ev == Trace[l]
               ok == IF pending THEN ConfigureLegal(st, ev.state) /\ ev.point \in RenderPoints \cup {"NewTemplate.exit"}
                                ELSE Legal(ev.point, st, ev.state)
           IN IF ok
              THEN /\ st' = ev.state /\ l' = l + 1 /\ UNCHANGED bad
                   /\ pending' = (ev.point = "Configure.writeMode")
              ELSE /\ bad' = <<l, ev.point, st, ev.state>> /\ UNCHANGED <<st, l, pending>>
Spec == Init /\ [][Next]_vars

Report == [lines |-> Len(Trace), consumed |-> l - 1, bad |-> bad]
Done == l > Len(Trace) \/ bad # <<>>
Gen == Done => PrintT(ToJson(Report))
=============================================================================
