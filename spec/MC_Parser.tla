------------------------------ MODULE MC_Parser ------------------------------
(* Inputs of machine P: every sequence of up to MaxLex mode-closed lexemes, optionally followed by one "open"      *)
(* lexeme (a construct cut in the middle).  Each lexeme is its source text and the token types it lexes to.        *)
EXTENDS TwParser, Json

CONSTANTS MaxLex, Emit_, LexSet

Lx(src, ts) == [src |-> src, ts |-> ts]
Closed == {Lx("t", <<"HTML">>), Lx("{{ 1 }}", <<"LBRACES", "INT", "RBRACES">>), Lx("{{ {a: 1} }}", <<"LBRACES", "LBRACE", "IDENT", "COLON", "INT", "RBRACE", "RBRACES">>),
           Lx("{{ [1, x] + 2 }}", <<"LBRACES", "LBRACKET", "INT", "COMMA", "IDENT", "RBRACKET", "ADD", "INT", "RBRACES">>),
           Lx("@if(x)", <<"IF", "LPAREN", "IDENT", "RPAREN">>), Lx("@elseif(1)", <<"ELSE_IF", "LPAREN", "INT", "RPAREN">>),
           Lx("@else", <<"ELSE">>), Lx("@end", <<"END">>), Lx("@each(v in [1])", <<"EACH", "LPAREN", "IDENT", "IN", "LBRACKET", "INT", "RBRACKET", "RPAREN">>),
           Lx("@insert(\"a\")", <<"INSERT", "LPAREN", "STR", "RPAREN">>), Lx("@insert(\"a\", 1)", <<"INSERT", "LPAREN", "STR", "COMMA", "INT", "RPAREN">>),
           Lx("@component(\"c\")", <<"COMPONENT", "LPAREN", "STR", "RPAREN">>), Lx("@slot", <<"SLOT">>), Lx("@slot(\"s\")", <<"SLOT", "LPAREN", "STR", "RPAREN">>),
           Lx("@for(i = 0; i; i + 1)", <<"FOR", "LPAREN", "IDENT", "ASSIGN", "INT", "SEMI", "IDENT", "SEMI", "IDENT", "ADD", "INT", "RPAREN">>),
           Lx("@for(;;)", <<"FOR", "LPAREN", "SEMI", "SEMI", "RPAREN">>), Lx("@for(x;)", <<"FOR", "LPAREN", "IDENT", "SEMI", "RPAREN">>),
           Lx("@breakIf(x)", <<"BREAK_IF", "LPAREN", "IDENT", "RPAREN">>), Lx("@continueIf(1 + x)", <<"CONTINUE_IF", "LPAREN", "INT", "ADD", "IDENT", "RPAREN">>),
           Lx("@break", <<"BREAK">>), Lx("@reserve(\"r\")", <<"RESERVE", "LPAREN", "STR", "RPAREN">>), Lx("@use(\"l\")", <<"USE", "LPAREN", "STR", "RPAREN">>),
           Lx("@dump(1, x)", <<"DUMP", "LPAREN", "INT", "COMMA", "IDENT", "RPAREN">>), Lx("@dump()", <<"DUMP", "LPAREN", "RPAREN">>),
           Lx("{{ x = 1 }}", <<"LBRACES", "IDENT", "ASSIGN", "INT", "RBRACES">>), Lx("{{ x = 1; x }}", <<"LBRACES", "IDENT", "ASSIGN", "INT", "SEMI", "IDENT", "RBRACES">>),
           Lx("{{ x = }}", <<"LBRACES", "IDENT", "ASSIGN", "RBRACES">>), Lx("{{ 1; ; 2 }}", <<"LBRACES", "INT", "SEMI", "SEMI", "INT", "RBRACES">>),
           Lx("{{ }}", <<"LBRACES", "RBRACES">>), Lx("{{ 1 + }}", <<"LBRACES", "INT", "ADD", "RBRACES">>), Lx("{{ {a: 1 2} }}", <<"LBRACES", "LBRACE", "IDENT", "COLON", "INT", "INT", "RBRACE", "RBRACES">>),
           Lx("{{ (1 }}", <<"LBRACES", "LPAREN", "INT", "RBRACES">>), Lx("{{ 1 {{-- c --}} + 2 {{-- d --}} }}", <<"LBRACES", "INT", "ADD", "INT", "RBRACES">>), Lx("{{ {a: 1,} }}", <<"LBRACES", "LBRACE", "IDENT", "COLON", "INT", "COMMA", "RBRACE", "RBRACES">>)}
\* component uses whose slot bodies are separated from the ")" and from each other by white space that comments split
\* into several tokens; a use without slots followed by white space and a {{ }}
SlotLx == {Lx("@component(\"c\") {{-- c --}} @slot s @end @end", <<"COMPONENT", "LPAREN", "STR", "RPAREN", "WS", "WS", "SLOT", "HTML", "END", "WS", "END">>),
           Lx("@component(\"c\") @slot(\"a\")x@end {{-- c --}} @slot y@end @end",
              <<"COMPONENT", "LPAREN", "STR", "RPAREN", "WS", "SLOT", "LPAREN", "STR", "RPAREN", "HTML", "END", "WS", "WS", "SLOT", "HTML", "END", "WS", "END">>),
           Lx("@component(\"c\") {{ 1 }}", <<"COMPONENT", "LPAREN", "STR", "RPAREN", "WS", "LBRACES", "INT", "RBRACES">>),
           Lx("@component(\"c\") {{-- c --}} {{ 1 }}", <<"COMPONENT", "LPAREN", "STR", "RPAREN", "WS", "WS", "LBRACES", "INT", "RBRACES">>)}
\* component uses whose slot body is closed by something else than @end, or that lack their own @end
SloppyLx == {Lx("@component(\"c\")@slot@else", <<"COMPONENT", "LPAREN", "STR", "RPAREN", "SLOT", "ELSE">>),
             Lx("@component(\"c\")@slot@end", <<"COMPONENT", "LPAREN", "STR", "RPAREN", "SLOT", "END">>)}
\* an illegal character in a position where the statement parser takes the token as it is
IllegalLx == {Lx("@each(# in [1])", <<"EACH", "LPAREN", "ILLEGAL", "IN", "LBRACKET", "INT", "RBRACKET", "RPAREN">>),
              Lx("@insert(#)", <<"INSERT", "LPAREN", "ILLEGAL", "RPAREN">>), Lx("@insert(#, 1)", <<"INSERT", "LPAREN", "ILLEGAL", "COMMA", "INT", "RPAREN">>),
              Lx("@slot(#)", <<"SLOT", "LPAREN", "ILLEGAL", "RPAREN">>), Lx("@reserve(#)", <<"RESERVE", "LPAREN", "ILLEGAL", "RPAREN">>),
              Lx("@component(#)", <<"COMPONENT", "LPAREN", "ILLEGAL", "RPAREN">>)}
Small == SloppyLx \cup {l \in SlotLx : l.src \in {"@component(\"c\") {{-- c --}} @slot s @end @end", "@component(\"c\") {{ 1 }}"}} \cup {l \in IllegalLx : l.src \in {"@each(# in [1])", "@slot(#)"}} \cup {l \in Closed : l.src \in {"t", "{{ 1 }}", "@if(x)", "@elseif(1)", "@else", "@end", "@each(v in [1])", "@insert(\"a\")", "@component(\"c\")", "@slot", "{{ {a: 1 2} }}",
                                     "@for(i = 0; i; i + 1)", "@breakIf(x)", "{{ x = 1; x }}"}}
\* constructs cut in the middle: the lexer is left in code mode (incode), or a string / comment is unterminated (ILLEGAL)
Open == {Lx("{{ 1", <<"LBRACES", "INT">>), Lx("{{", <<"LBRACES">>), Lx("{{ {a: 1", <<"LBRACES", "LBRACE", "IDENT", "COLON", "INT">>),
         Lx("{{ {a: 1,", <<"LBRACES", "LBRACE", "IDENT", "COLON", "INT", "COMMA">>), Lx("{{ {a", <<"LBRACES", "LBRACE", "IDENT">>), Lx("{{ [1,", <<"LBRACES", "LBRACKET", "INT", "COMMA">>),
         Lx("{{ 1 +", <<"LBRACES", "INT", "ADD">>), Lx("@if(x", <<"IF", "LPAREN", "IDENT">>), Lx("@if(", <<"IF", "LPAREN">>), Lx("@if", <<"IF">>),
         Lx("@each(v in", <<"EACH", "LPAREN", "IDENT", "IN">>), Lx("@insert(\"a\"", <<"INSERT", "LPAREN", "STR">>), Lx("@insert(\"a\", 1", <<"INSERT", "LPAREN", "STR", "COMMA", "INT">>),
         Lx("@component(\"c\", {a: 1", <<"COMPONENT", "LPAREN", "STR", "COMMA", "LBRACE", "IDENT", "COLON", "INT">>), Lx("@slot(\"s\"", <<"SLOT", "LPAREN", "STR">>),
         Lx("@for(i = 0; i", <<"FOR", "LPAREN", "IDENT", "ASSIGN", "INT", "SEMI", "IDENT">>), Lx("@for(", <<"FOR", "LPAREN">>), Lx("@for(;", <<"FOR", "LPAREN", "SEMI">>),
         Lx("@breakIf(x", <<"BREAK_IF", "LPAREN", "IDENT">>), Lx("@dump(1,", <<"DUMP", "LPAREN", "INT", "COMMA">>), Lx("@reserve(\"r\"", <<"RESERVE", "LPAREN", "STR">>),
         Lx("{{ x =", <<"LBRACES", "IDENT", "ASSIGN">>), Lx("{{ x = 1;", <<"LBRACES", "IDENT", "ASSIGN", "INT", "SEMI">>),
         Lx("{{ \"abc", <<"LBRACES", "ILLEGAL">>), Lx("{{-- c", <<"ILLEGAL">>), Lx("{{ ~ }}", <<"LBRACES", "ILLEGAL", "RBRACES">>),
         \* a comment as the last thing before the end of the input: the code before it is as open as without it
         Lx("{{ 1 {{-- c --}}", <<"LBRACES", "INT">>), Lx("{{ 1 + {{-- c --}}", <<"LBRACES", "INT", "ADD">>), Lx("{{ x = 1 {{-- c --}}", <<"LBRACES", "IDENT", "ASSIGN", "INT">>),
         Lx("{{ x = {{-- c --}}", <<"LBRACES", "IDENT", "ASSIGN">>), Lx("@if(x {{-- c --}}", <<"IF", "LPAREN", "IDENT">>), Lx("@insert(\"a\", {{-- c --}}", <<"INSERT", "LPAREN", "STR", "COMMA">>),
         Lx("{{ {{-- c --}}", <<"LBRACES">>)}
InCodeAfter(l) == l.ts[Len(l.ts)] # "ILLEGAL" /\ l.src # "{{ ~ }}"

\* every sequence over A of length <= n: the functions 1..n -> A + a padding element, with the padding dropped. (A union
\* of the sets of each length makes TLC compare every new element with every old one: 19^4 inputs never finished.)
PadLx == [src |-> "", ts |-> <<"$pad">>]
SeqsUpTo(A, n) == {SelectSeq(q, LAMBDA e : e # PadLx) : q \in [1..n -> A \cup {PadLx}]}
RECURSIVE CatSrc(_)
CatSrc(ls) == IF ls = <<>> THEN "" ELSE ls[1].src \o CatSrc(Tail(ls))
RECURSIVE CatToks(_)
CatToks(ls) == IF ls = <<>> THEN <<>> ELSE ls[1].ts \o CatToks(Tail(ls))
Count(ts, T) == Len(SelectSeq(ts, LAMBDA t : t \in T))
\* more block openers than @end: some block is not closed
\* A block-form @insert("n") opens a block too, but the parser lets any closer of an enclosing construct end it, so
\* counting is not sound for it; an input that ENDS with the header of a block-form insert is certainly unterminated.
EndsWithBlockInsert(ts) == LET n == Len(ts) IN n >= 4 /\ ts[n - 3] = "INSERT" /\ ts[n - 2] = "LPAREN" /\ ts[n - 1] = "STR" /\ ts[n] = "RPAREN"
NoEndAfterP(ts, k) == \A j \in (k + 1)..Len(ts) : ts[j] \notin {"END", "ELSE", "ELSE_IF"}
HdrP(ts, k, h) == k + Len(h) - 1 <= Len(ts) /\ \A j \in 1..Len(h) : ts[k + j - 1] = h[j]
NeverClosedP(ts) == \E k \in 1..Len(ts) : \/ (HdrP(ts, k, <<"INSERT", "LPAREN", "STR", "RPAREN">>) /\ NoEndAfterP(ts, k + 3))
                                          \/ (HdrP(ts, k, <<"COMPONENT", "LPAREN", "STR", "RPAREN", "SLOT">>) /\ NoEndAfterP(ts, k + 4))
Unclosed(ts) == Count(ts, {"IF", "EACH", "FOR"}) > Count(ts, {"END"}) \/ EndsWithBlockInsert(ts) \/ NeverClosedP(ts)
Base == IF LexSet = "small" THEN Small ELSE Closed \cup IllegalLx \cup SlotLx \cup SloppyLx
\* every @slot of the input belongs to a component use: the input is made of SlotLx lexemes and lexemes without @slot
Owned(q) == \A k \in 1..Len(q) : q[k] \in SlotLx \/ Count(q[k].ts, {"SLOT"}) = 0
\* (one set constructor, no union: see SeqsUpTo)
MkInput(q, last) == IF last \in Open
                    THEN [toks |-> CatToks(q) \o last.ts, incode |-> InCodeAfter(last), open |-> TRUE, src |-> CatSrc(q) \o last.src, owned |-> FALSE]
                    ELSE LET q2 == IF last = PadLx THEN q ELSE Append(q, last) IN
                         [toks |-> CatToks(q2), incode |-> FALSE, open |-> Unclosed(CatToks(q2)), src |-> CatSrc(q2), owned |-> Owned(q2)]
MCInputs == {MkInput(q, last) : q \in SeqsUpTo(Base, MaxLex - 1), last \in Base \cup Open \cup {PadLx}}
ASSUME Base \cap Open = {}

\* ---- LexSet "exprA" / "exprB": every sequence of up to MaxLex expression tokens between "{{" and "}}", and the same
\* sequence cut off by the end of the input (a prefix of a template: must be rejected). Tokens are written with one
\* space between them, so each lexes on its own.
Tk(t, s) == [ts |-> <<t>>, s |-> s]
Tk2(ts, s) == [ts |-> ts, s |-> s]          \* a text that lexes to several tokens ("&&": two illegal characters)
ExprB == {Tk("IDENT", "x"), Tk("INT", "1"), Tk("ADD", "+"), Tk("SUB", "-"), Tk("QUESTION", "?"), Tk("COLON", ":"), Tk("DOT", "."), Tk("LPAREN", "("),
          Tk("RPAREN", ")"), Tk("LBRACKET", "["), Tk("RBRACKET", "]"), Tk("INC", "++"), Tk("COMMA", ","), Tk2(<<"ILLEGAL", "ILLEGAL">>, "&&")}
ExprA == ExprB \cup {Tk("STR", "\"s\""), Tk("MUL", "*"), Tk("EQ", "=="), Tk("LTHAN", "<"), Tk("NOT", "!"), Tk("LBRACE", "{"), Tk("RBRACE", "}"),
                     Tk("SEMI", ";"), Tk("ASSIGN", "="), Tk("NIL", "nil"), Tk("FLOAT", "1.5"), Tk2(<<"ILLEGAL", "ILLEGAL">>, "||"), Tk("ILLEGAL", "#")}
PadTk == Tk("$pad", "")
TkSeqs(A, n) == {SelectSeq(q, LAMBDA e : e # PadTk) : q \in [1..n -> A \cup {PadTk}]}
RECURSIVE TkSrc(_)
TkSrc(q) == IF q = <<>> THEN "" ELSE " " \o q[1].s \o TkSrc(Tail(q))
RECURSIVE TkTypes(_)
TkTypes(q) == IF q = <<>> THEN <<>> ELSE q[1].ts \o TkTypes(Tail(q))
\* the lexer takes "}}" for the end of the code only when every "{" before it has been closed: otherwise it is two "}"
\* tokens and the input ends in code mode
Balanced(q) == Count(TkTypes(q), {"LBRACE"}) = Count(TkTypes(q), {"RBRACE"})
ExprInputs(A) == {IF closed /\ Balanced(q)
                  THEN [toks |-> <<"LBRACES">> \o TkTypes(q) \o <<"RBRACES">>, incode |-> FALSE, open |-> FALSE, src |-> "{{" \o TkSrc(q) \o " }}", owned |-> TRUE]
                  ELSE IF closed
                  THEN [toks |-> <<"LBRACES">> \o TkTypes(q) \o <<"RBRACE", "RBRACE">>, incode |-> TRUE, open |-> FALSE, src |-> "{{" \o TkSrc(q) \o " }}", owned |-> TRUE]
                  ELSE [toks |-> <<"LBRACES">> \o TkTypes(q), incode |-> TRUE, open |-> TRUE, src |-> "{{" \o TkSrc(q), owned |-> TRUE] :
                  q \in TkSeqs(A, MaxLex), closed \in BOOLEAN}
AllInputs == IF LexSet = "exprA" THEN ExprInputs(ExprA) ELSE IF LexSet = "exprB" THEN ExprInputs(ExprB) ELSE MCInputs

\* (toks: compared with the real lexer's token types for the token-sequence inputs; adjacent text lexemes of the other sets
\* lex as one token)
Record == [src |-> inp.src, toks |-> IF LexSet \in {"exprA", "exprB"} THEN inp.toks ELSE <<>>, parseErr |-> errs # <<>>, mustErr |-> inp.open \/ (\E k \in 1..Len(inp.toks) : inp.toks[k] = "ILLEGAL"), firstErr |-> IF errs = <<>> THEN "" ELSE errs[1]]
Gen == (Finished /\ Emit_) => PrintT(ToJson(Record))
=============================================================================
