---- MODULE MC_Lexer ----
(* Model checking of machine L over every byte string up to MaxLen over an adversarial alphabet, *)
(* and generation of one replayable record per input (Gen).                                      *)
EXTENDS TwLexer, TwLexemes, Json, FiniteSets

CONSTANTS Alphabet, MaxLen, Emit_, Mode   \* Mode = "bytes": Alphabet is a set of byte codes; "lexemes": a set of byte sequences

RECURSIVE SeqsUpTo(_)
SeqsUpTo(n) == IF n = 0 THEN {<<>>}
               ELSE LET S == SeqsUpTo(n - 1) IN S \cup {Append(s, c) : s \in S, c \in Alphabet}

AlphaA == {123, 125, 45, 92, 64, 105, 102, 34, 10, 32, 40, 41}   \* { } - \ @ i f " \n SP ( )
AlphaB == {123, 125, 45, 92, 64, 101, 110, 100, 13, 0, 195, 169} \* { } - \ @ e n d CR NUL é(2 bytes)
AlphaC == {123, 125, 49, 39, 92, 10, 64, 105, 102, 40, 41, 116}  \* { } 1 ' \ \n @ i f ( ) t

RECURSIVE Flatten(_)
Flatten(ss) == IF ss = <<>> THEN <<>> ELSE Head(ss) \o Flatten(Tail(ss))
Inputs == IF Mode = "bytes" THEN SeqsUpTo(MaxLen) ELSE {Flatten(ss) : ss \in SeqsUpTo(MaxLen)}
Init == \E input \in Inputs : LexInit(input)
Next == Step
Spec == Init /\ [][Next]_lexvars /\ WF_lexvars(Next)
Terminates == <>done

\* C05 expectation for "simple" token streams: text, {{ INT }} and {{ STR-free }} blocks
RECURSIVE Render(_, _)
Render(k, acc) ==    \* [ok, out]: ok = the stream from k on is text / {{ INT }} only
  IF k > Len(toks) THEN [ok |-> FALSE, out |-> acc]
  ELSE IF toks[k].t = "EOF" THEN [ok |-> TRUE, out |-> acc]
  ELSE IF toks[k].t = "HTML" THEN Render(k + 1, acc \o toks[k].lit)
  ELSE IF toks[k].t = "LBRACES" /\ k + 2 <= Len(toks) /\ toks[k + 1].t = "INT" /\ toks[k + 2].t = "RBRACES"
          /\ Len(toks[k + 1].lit) = 1
       THEN Render(k + 3, acc \o toks[k + 1].lit)
  ELSE [ok |-> FALSE, out |-> acc]

\* C08 at lexer level: inputs that every conforming parser must reject
Count(T) == Len(SelectSeq(toks, LAMBDA tk : tk.t \in T))
LastTok == toks[Len(toks)]
\* an input that ends with the header of a block-form @insert("n") is unterminated (see MC_Parser)
EndsWithBlockInsert == LET n == Len(toks) - 1 IN n >= 4 /\ toks[n - 3].t = "INSERT" /\ toks[n - 2].t = "LPAREN" /\ toks[n - 1].t = "STR" /\ toks[n].t = "RPAREN"
                                                 /\ toks[n + 1].t = "EOF"
\* more generally: the header of a block-form insert, or a component use followed at once by a slot body, after which no
\* @end comes any more
NoEndAfter(k) == \A j \in (k + 1)..Len(toks) : toks[j].t \notin {"END", "ELSE", "ELSE_IF"}      \* (the parser lets any closer end such a body)
Hdr(k, ts) == k + Len(ts) - 1 <= Len(toks) /\ \A j \in 1..Len(ts) : toks[k + j - 1].t = ts[j]
NeverClosed == \E k \in 1..Len(toks) : \/ (Hdr(k, <<"INSERT", "LPAREN", "STR", "RPAREN">>) /\ NoEndAfter(k + 3))
                                        \/ (Hdr(k, <<"COMPONENT", "LPAREN", "STR", "RPAREN", "SLOT">>) /\ NoEndAfter(k + 4))
ErrTags == (IF done /\ LastTok.t = "ILLEGAL" /\ Len(LastTok.lit) = 1 /\ LastTok.s = LastTok.e /\ ~(Ch(LastTok.s) \in {34, 39})
               THEN {"illegal-byte"} ELSE {})
      \cup (IF done /\ LastTok.t = "ILLEGAL" /\ Ch(LastTok.s) \in {34, 39} THEN {"unterminated-string"} ELSE {})
      \cup (IF done /\ LastTok.t = "ILLEGAL" /\ Ch(LastTok.s) = 123 THEN {"unterminated-comment"} ELSE {})
      \cup (IF done /\ LastTok.t = "EOF" /\ ~html THEN {"open-code"} ELSE {})
      \cup (IF done /\ (Count({"IF", "EACH", "FOR"}) > Count({"END"}) \/ EndsWithBlockInsert \/ NeverClosed) THEN {"open-block"} ELSE {})
MustErr == ErrTags # {}
SetToSeq_(S) == LET RECURSIVE F(_) F(X) == IF X = {} THEN <<>> ELSE LET x == CHOOSE x \in X : TRUE IN <<x>> \o F(X \ {x}) IN F(S)

Record == LET r == Render(1, <<>>) IN
          [inp |-> inp,
           toks |-> [k \in 1..Len(toks) |-> [t |-> toks[k].t, lit |-> toks[k].lit, s |-> toks[k].s, e |-> toks[k].e,
                                             sl |-> Pos(toks[k].s)[1], sc |-> Pos(toks[k].s)[2],
                                             el |-> Pos(toks[k].e)[1], ec |-> Pos(toks[k].e)[2]]],
           cls |-> IF r.ok THEN "simple" ELSE "other",
           out |-> IF r.ok THEN r.out ELSE <<>>,
           mustErr |-> MustErr,
           tags |-> SetToSeq_(ErrTags)]
Gen == (done /\ Emit_) => PrintT(ToJson(Record))
====
