------------------------------- MODULE MC_Expr -------------------------------
(* Bounded families of expressions for C01: model checking of the Pratt design (RoundTrip) and generation of  *)
(* replayable records {src, data, expect}.                                                                     *)
EXTENDS TwExpr, Json

CONSTANTS Family, Emit_

VARIABLES case, rec
vars == <<case, rec>>

Ops == {"+", "-", "*", "/", "%", "==", "!=", "<", ">", "<=", ">="}

\* C09: every value kind reaches every operator, index, member access and condition (data vars k1..k16)
KindVals == <<I(0), I(5), I(-3), IMax(0), IMin(0), F(0, 0), F(5, 1), S(""), S("ab"), B(TRUE), B(FALSE), Nil,
              A(<<>>), A(<<I(1), I(2)>>), O(<<>>), O(<<[pk |-> "k", pv |-> I(1)]>>)>>
KName(i) == "k" \o ToString(i)
KindBind == [i \in 1..Len(KindVals) |-> [n |-> KName(i), v |-> KindVals[i]]]
KV(i) == Var(KName(i))
KI == 1..Len(KindVals)
KindsInfix == {Bin(o, KV(i), KV(j)) : o \in Ops, i \in KI, j \in KI}
KindsOther == {Pre(p, KV(i)) : p \in {"-", "!"}, i \in KI} \cup {Post(p, KV(i)) : p \in {"++", "--"}, i \in KI}
              \cup {Idx(KV(i), KV(j)) : i \in KI, j \in KI}
              \cup {Dot(KV(i), f) : i \in KI, f \in {"k", "zz", "K"}}
              \cup {Idx(KV(i), l) : i \in KI, l \in {StrL(""), StrL("k"), IntL(0), IntL(9), Pre("-", IntL(1))}}
              \cup {Tern(KV(i), KV(j), StrL("F")) : i \in KI, j \in {2, 9, 14, 16}}
              \cup {ArrL(<<KV(i), KV(j)>>) : i \in KI, j \in {1, 12}} \cup {ObjL(<<[key |-> "p", ex |-> KV(i)]>>) : i \in KI}
              \cup {Dot(ObjL(<<[key |-> "p", ex |-> KV(i)]>>), "p") : i \in KI}
              \cup {Idx(ArrL(<<KV(i)>>), IntL(0)) : i \in KI}

\* binding sets chosen so that different groupings give different values
Bind(k) == CASE k = 0 -> KindBind
             [] k = 1 -> <<[n |-> "a", v |-> I(7)], [n |-> "b", v |-> I(2)], [n |-> "c", v |-> I(4)], [n |-> "d", v |-> I(3)]>>
             [] k = 2 -> <<[n |-> "a", v |-> I(-9)], [n |-> "b", v |-> I(5)], [n |-> "c", v |-> I(-2)], [n |-> "d", v |-> I(1)]>>
             [] k = 3 -> <<[n |-> "a", v |-> F(5, 1)], [n |-> "b", v |-> F(1, 1)], [n |-> "c", v |-> F(4, 0)], [n |-> "d", v |-> F(-3, 2)]>>
             [] k = 4 -> <<[n |-> "a", v |-> S("x")], [n |-> "b", v |-> S("y")], [n |-> "c", v |-> S("x")], [n |-> "d", v |-> S("")]>>
             [] k = 5 -> <<[n |-> "a", v |-> I(6)], [n |-> "b", v |-> I(0)], [n |-> "c", v |-> I(3)], [n |-> "d", v |-> I(2)]>>
             [] k = 6 -> <<[n |-> "a", v |-> I(1)], [n |-> "b", v |-> S("s")], [n |-> "c", v |-> F(1, 1)], [n |-> "d", v |-> B(TRUE)]>>
             [] k = 7 -> <<[n |-> "a", v |-> IMax(0)], [n |-> "b", v |-> I(1)], [n |-> "c", v |-> IMin(0)], [n |-> "d", v |-> I(-1)]>>
             [] k = 9 -> <<[n |-> "a", v |-> F(-3, 1)], [n |-> "b", v |-> F(1, 2)], [n |-> "c", v |-> F(1, 0)], [n |-> "d", v |-> F(0, 0)]>>
             [] k = 10 -> <<[n |-> "a", v |-> NaN], [n |-> "b", v |-> PInf], [n |-> "c", v |-> NInf], [n |-> "d", v |-> F(3, 1)]>>
             [] k = 11 -> <<[n |-> "a", v |-> NaN], [n |-> "b", v |-> F(0, 0)], [n |-> "c", v |-> F(-2, 0)], [n |-> "d", v |-> PInf]>>
             [] k = 12 -> <<[n |-> "a", v |-> F(1, 0)], [n |-> "b", v |-> F(0, 0)], [n |-> "c", v |-> F(-1, 0)], [n |-> "d", v |-> NZero]>>
             [] k = 13 -> <<[n |-> "a", v |-> F(0, 0)], [n |-> "b", v |-> F(3, 1)], [n |-> "c", v |-> PInf], [n |-> "d", v |-> F(0, 0)]>>
             \* strings are compared byte for byte: texts that spell the same character differently (character references,
             \* a reference to a reference) are different strings
             [] k = 14 -> <<[n |-> "a", v |-> S("&amp;amp;")], [n |-> "b", v |-> S("&amp;")], [n |-> "c", v |-> S("&")], [n |-> "d", v |-> S("&#65;")]>>
             [] k = 15 -> <<[n |-> "a", v |-> S("A")], [n |-> "b", v |-> S("&#65;")], [n |-> "c", v |-> S("&lt;")], [n |-> "d", v |-> S("<")]>>
             [] k = 8 -> <<[n |-> "a", v |-> A(<<I(10), I(20), I(30)>>)], [n |-> "b", v |-> I(2)],
                           [n |-> "c", v |-> O(<<[pk |-> "k", pv |-> I(5)], [pk |-> "Name", pv |-> O(<<[pk |-> "k", pv |-> I(7)]>>)]>>)],
                           [n |-> "d", v |-> I(1)]>>

A_ == Var("a")  B_ == Var("b")  C_ == Var("c")  D_ == Var("d")

\* ---- tree-first families: every shape x every operator assignment ----
Pairs == {Bin(o1, Bin(o2, A_, B_), C_) : o1 \in Ops, o2 \in Ops} \cup {Bin(o1, A_, Bin(o2, B_, C_)) : o1 \in Ops, o2 \in Ops}
Triples == {Bin(o1, Bin(o2, Bin(o3, A_, B_), C_), D_) : o1 \in Ops, o2 \in Ops, o3 \in Ops}
      \cup {Bin(o1, Bin(o2, A_, Bin(o3, B_, C_)), D_) : o1 \in Ops, o2 \in Ops, o3 \in Ops}
      \cup {Bin(o1, Bin(o2, A_, B_), Bin(o3, C_, D_)) : o1 \in Ops, o2 \in Ops, o3 \in Ops}
      \cup {Bin(o1, A_, Bin(o2, Bin(o3, B_, C_), D_)) : o1 \in Ops, o2 \in Ops, o3 \in Ops}
      \cup {Bin(o1, A_, Bin(o2, B_, Bin(o3, C_, D_))) : o1 \in Ops, o2 \in Ops, o3 \in Ops}
\* unary / postfix / ternary / index / dot mixed with one binary operator
Atoms == {A_, B_, IntL(3), FloatL(5, 1)}
Unary == {Pre("-", x) : x \in {A_, IntL(3)}} \cup {Post(p, x) : p \in {"++", "--"}, x \in {A_, IntL(3)}}
         \* prefix binds weaker than postfix, on literals as on variables
         \cup {Pre("-", Post(p, x)) : p \in {"++", "--"}, x \in {IntL(2), FloatL(5, 1), A_}} \cup {Pre("!", Post("++", IntL(0)))}
         \cup {Pre("-", Post("++", A_)), Post("--", Pre("-", A_)), Pre("-", Pre("-", A_)), Pre("!", BoolL(TRUE)),
               Pre("!", Pre("!", BoolL(FALSE)))}
Mixed == {Bin(o, u, B_) : o \in Ops, u \in Unary} \cup {Bin(o, B_, u) : o \in Ops, u \in Unary}
         \cup {Pre("-", Bin(o, A_, B_)) : o \in Ops} \cup {Post("++", Bin(o, A_, B_)) : o \in Ops}
Terns == {Tern(Bin(o, A_, B_), C_, D_) : o \in Ops} \cup {Tern(A_, Bin(o, B_, C_), D_) : o \in Ops}
         \* only the selected part of a ternary is evaluated: a failing part that is not selected does not fail the render
         \cup {Tern(c, t, f) : c \in {BoolL(TRUE), BoolL(FALSE), Bin("==", B_, B_), Bin("!=", B_, B_)},
                                t \in {A_, Var("zz"), Bin("/", A_, IntL(0)), Bin("+", A_, StrL("s"))},
                                f \in {B_, Var("zz"), Bin("%", A_, IntL(0)), Dot(A_, "nope")}}
         \cup {Tern(Bin("==", B_, IntL(0)), IntL(0), Bin("/", A_, B_)), Tern(Bin("!=", B_, IntL(0)), Bin("/", A_, B_), IntL(0)),
               Tern(BoolL(TRUE), Tern(BoolL(FALSE), Var("zz"), A_), Var("zz"))}
         \cup {Tern(A_, B_, Bin(o, C_, D_)) : o \in Ops} \cup {Bin(o, Tern(A_, B_, C_), D_) : o \in Ops}
         \cup {Bin(o, A_, Tern(B_, C_, D_)) : o \in Ops}
         \cup {Tern(A_, B_, Tern(C_, D_, A_)), Tern(A_, Tern(B_, C_, D_), A_), Tern(Tern(A_, B_, C_), D_, A_),
               Tern(BoolL(FALSE), A_, Tern(BoolL(FALSE), B_, C_)), Tern(BoolL(TRUE), A_, Tern(BoolL(FALSE), B_, C_))}

\* index / member access / postfix chains against every binary operator (binding set 8: a array, c object)
Members == {Idx(A_, D_), Idx(A_, IntL(0)), Dot(C_, "k"), Dot(Dot(C_, "name"), "k"), Idx(C_, StrL("k")),
            Idx(A_, Bin("+", D_, IntL(1))), Post("++", Idx(A_, D_)), Pre("-", Idx(A_, D_)), Pre("-", Dot(C_, "k")),
            Dot(Pre("-", C_), "k"), Idx(Dot(C_, "Name"), StrL("k")), Post("--", Dot(C_, "k")),
            Tern(Idx(A_, IntL(0)), Dot(C_, "k"), D_)}
MemberOps == {Bin(o, m, B_) : o \in Ops, m \in Members} \cup {Bin(o, B_, m) : o \in Ops, m \in Members} \cup Members
\* faults that C01 says must fail the render
BigLit == Lit(Err("integer literal out of range"), "9223372036854775808", "num")
MaxLit == Lit(IMax(0), "9223372036854775807", "num")
Faults == {Var("zz"), Bin("+", A_, Var("zz")), Bin("*", Var("zz"), A_), BigLit, Bin("-", BigLit, IntL(1)), Pre("-", BigLit),
           Bin("+", MaxLit, IntL(1)), Bin("-", Pre("-", MaxLit), IntL(2)), Bin("*", MaxLit, IntL(1)), Pre("-", Bin("-", Pre("-", MaxLit), IntL(1))),
           Bin("/", A_, IntL(0)), Bin("%", A_, IntL(0)), Bin("/", A_, Bin("-", B_, B_)), Bin("%", A_, Bin("-", B_, B_)),
           Tern(BoolL(TRUE), A_, Var("zz")), Tern(BoolL(FALSE), A_, Var("zz")), Tern(Var("zz"), A_, B_),
           \* a failing element at a later position of an array literal, an object literal, an argument list - also when the
           \* value built from the list does not show that element
           Call(ArrL(<<A_, Var("zz")>>), "len", <<>>), Idx(ArrL(<<A_, Var("zz")>>), IntL(0)), Idx(ArrL(<<A_, B_, Bin("/", A_, IntL(0))>>), IntL(1)),
           Call(ArrL(<<A_>>), "append", <<B_, Var("zz")>>), Call(Call(ArrL(<<A_>>), "append", <<B_, Var("zz")>>), "len", <<>>),
           Call(BoolL(TRUE), "then", <<A_, Var("zz")>>), Call(BoolL(FALSE), "then", <<Var("zz"), B_>>),
           Dot(ObjL(<<[key |-> "p", ex |-> A_], [key |-> "q", ex |-> Var("zz")]>>), "p"), Call(ArrL(<<ArrL(<<A_, Bin("%", A_, IntL(0))>>)>>), "len", <<>>)}
          \cup {Bin(o, A_, l) : o \in Ops, l \in {StrL("s"), FloatL(3, 1), BoolL(TRUE), NilL}}
          \cup {Bin(o, l, A_) : o \in Ops, l \in {StrL("s"), FloatL(3, 1), BoolL(TRUE), NilL}}

\* purity: operators yield new values and never change their operands -- the same variable read twice in one
\* expression, and again in a later {{ }} block
Reuse == {Bin(o, Post(p, A_), A_) : o \in {"+", "-", "*", "==", "<"}, p \in {"++", "--"}}
    \cup {Bin(o, A_, Post(p, A_)) : o \in {"+", "-", "*", "==", "<"}, p \in {"++", "--"}}
    \cup {Bin("+", Pre("-", A_), A_), Bin("-", A_, Pre("-", A_)), Bin("*", Post("--", A_), Post("--", A_)), Tern(Post("--", A_), A_, B_),
          Bin("+", Bin("+", Post("++", A_), Post("++", A_)), A_)}
Multi == {<<Post(p, A_), A_, Post(p, A_), A_>> : p \in {"++", "--"}} \cup {<<Pre("-", A_), A_>>, <<Bin("+", A_, B_), A_, B_>>,
         <<Bin("*", A_, IntL(2)), A_>>, <<Tern(A_, Post("--", A_), A_), A_>>, <<Post("--", Post("--", A_)), A_>>}
         \* typed arithmetic of literals that look alike: 7 / 2 is an integer division wherever 7.0 / 2.0 stands in the same template
         \cup {<<Bin(o, FloatL(x, 0), FloatL(y, 0)), Bin(o, IntL(x), IntL(y)), Bin(o, FloatL(x, 0), FloatL(y, 0))>> : o \in {"/", "+", "*", "-", "%", "=="}, x \in {7}, y \in {2}}
         \cup {<<Bin(o, IntL(x), IntL(y)), Bin(o, FloatL(x, 0), FloatL(y, 0)), Bin(o, IntL(x), IntL(y))>> : o \in {"/", "+", "*", "<"}, x \in {7, 1}, y \in {2}}
         \cup {<<Bin("+", Bin("*", IntL(2), IntL(3)), Bin("*", FloatL(2, 0), FloatL(3, 0)))>>, <<Bin("*", FloatL(2, 0), FloatL(3, 0)), Bin("+", Bin("*", IntL(2), IntL(3)), Bin("*", FloatL(2, 0), FloatL(3, 0)))>>,
               <<Bin("/", IntL(7), IntL(2)), Bin("/", Pre("-", IntL(7)), IntL(2)), Bin("/", FloatL(7, 0), IntL(2))>>}

\* ---- token-first families: flat operator sequences, grouped by the specification's own Pratt parser ----
W(n) == T("word", n)
Flat2 == {<<W("a"), T("op", o1), W("b"), T("op", o2), W("c")>> : o1 \in Ops, o2 \in Ops}
Flat3 == {<<W("a"), T("op", o1), W("b"), T("op", o2), W("c"), T("op", o3), W("d")>> : o1 \in Ops, o2 \in Ops, o3 \in Ops}
FlatLit == {<<T("num", x), T("op", o1), T("num", y), T("op", o2), T("num", z)>> :
              o1 \in Ops, o2 \in Ops, x \in {"7"}, y \in {"2", "0"}, z \in {"4", "2.5"}}

\* C09: absent loop clauses, non-assignment init, directive arguments of every kind: must return (output or error)
RawAny == {"@for(;;)x@break@end", "@for(i = 0; i < 2;)x@break@end", "@for(i = 0; ; i++)x@break@end", "@for(; false;)x@end",
           "@for(; k11;)x@end", "@for(i = 0; i < 2; )x@breakIf(true)@end", "@for(k2; false; k2)x@end", "@for(1; false; 1)x@end",
           "@for(i = 0; i < 1; i++)@end", "@for(i = 0; ; i++)x@break@else e@end", "@for(;;)x@break@else e@end", "@for(; false;)x@else e@end", "@for(;; k1)x@break@else@end",
           "@for(i = 0; ; )x@breakIf(true)@else e@end", "@each(v in k13)x@else@end", "@each(v in k13)@else e@end", "@for(k1; k1 < 3; k1++)[{{ k1 }}]{{ k1 = k1 + 1 }}@end", "@for(k1; k1 < 2; k1++){{ k1 = k1 + 1 }}.@end",
           "@for(1 + 1; k1 < 2; k1++){{ k1 = k1 + 1 }}<{{ k1 }}>@end", "@for(k9; k1 < 1; k9){{ k1 = k1 + 1 }}x@end", "@for(k1; k1 < 2; k1 = k1 + 1)x@end",
           "@for(k14; k1 < 1; k14){{ k1 = k1 + 1 }}@end", "@for(nil; k1 < 1; nil){{ k1 = k1 + 1 }}@end", "@for(k1; k1 < 1; ){{ k1 = k1 + 1 }}y@end", "@for(i = 0; i < 1; i = i + 1)x@end", "@for(i = k9; false; i++)x@end",
           "@each(v in k14)@end", "@each(v in k14)@break@end", "@if(k1)@end", "@if(k2)@else@end", "@if(k1)@elseif(k2)@end",
           "@dump(k1, k9, k12, k14, k16)", "@dump()", "@dump(zz)", "@dump(k16.zz)", "@breakIf(k2)", "@continueIf(k2)", "@break", "@continue",
           "@insert(\"a\", k2)", "@insert(\"a\")x@end", "@reserve(\"a\")", "@reserve(k2)", "@use(\"nope\")", "@use(k2)",
           "@component(\"nope\")", "@component(\"nope\", {a: k2})", "@component(k2)", "@slot", "@slot(\"a\")", "@slot(k2)",
           "@slot x @end", "@end", "@else", "@elseif(k2)", "{{ k2; k9 }}", "{{ ; }}", "{{ k2 = 1 }}", "{{ k2 = \"s\" }}",
           "{{ loop }}", "{{ loop.index }}", "{{ k16[\"\"] }}", "{{ k16[k8] }}", "{{ k2.k }}", "{{ k9.len.x }}", "{{ k14[k4] }}", "{{ k14[k5] }}",
           "{{ k14[0][0] }}", "{{ k16.k.k }}", "{{ -k4 }}", "{{ -k5 }}", "{{ k5 - 1 }}", "{{ k4 + 1 }}", "{{ k5 / k3 }}", "{{ k5 % k3 }}",
           "{{ k4 * k4 }}", "{{ k5 * k3 }}", "{{ k5-- }}", "{{ k4++ }}", "{{ 1.5.5 }}", "{{ 1..2 }}", "{{ 99999999999999999999.5 }}",
           "{{ k9() }}", "{{ k9.() }}", "{{ k2.k9 }}", "{{ [k1, zz] }}", "{{ {a: zz} }}", "{{ {a} }}", "{{ {k2} }}", "{{ {zz} }}",
           "{{ k13.zz() }}", "{{ k12.len() }}", "{{ k15.len() }}", "{{ nil.x }}", "{{ nil[0] }}", "{{ true.x }}", "{{ (1).x }}"}

\* C01: IEEE-754 semantics also on NaN and the infinities (from the data map and from float division by zero)
Vars4 == {A_, B_, C_, D_}
CmpOps == {"==", "!=", "<", ">", "<=", ">="}
FL(n) == FloatL(n, 0)
Ieee == {Bin(o, x, y) : o \in Ops, x \in Vars4, y \in Vars4}
        \cup {Bin(c, Bin(ar, x, y), z) : c \in CmpOps, ar \in {"+", "-", "*", "/"}, x \in Vars4, y \in Vars4, z \in Vars4}
        \cup {Tern(Bin(c, x, y), StrL("T"), StrL("F")) : c \in CmpOps, x \in Vars4, y \in Vars4}
        \cup {Bin(c, Pre("-", Bin("/", x, y)), z) : c \in CmpOps, x \in Vars4, y \in Vars4, z \in Vars4}
        \cup {Bin(c, Post(p, x), y) : c \in CmpOps, p \in {"++", "--"}, x \in Vars4, y \in Vars4}
        \* the sign of a zero shows in what a division by it gives
        \cup {Bin(c, Bin("/", x, Pre("-", y)), z) : c \in CmpOps, x \in Vars4, y \in Vars4, z \in Vars4}
        \cup {Bin(c, Bin("/", x, Bin(ar, y, z)), FL(0)) : c \in {"<", ">", "=="}, ar \in {"+", "-", "*"}, x \in Vars4, y \in Vars4, z \in Vars4}
        \cup {Bin(c, Bin("/", FL(1), Pre("-", Pre("-", x))), FL(0)) : c \in {"<", ">"}, x \in Vars4}
IeeeLit == {Bin(c, Bin("/", FL(n1), FL(n2)), Bin("/", FL(n3), FL(n4))) : c \in CmpOps, n1 \in {0, 1}, n2 \in {0, 1}, n3 \in {0, 1}, n4 \in {0, 2}}
           \cup {Bin(c, Bin("/", FL(n1), Pre("-", FL(n2))), FL(0)) : c \in CmpOps, n1 \in {0, 1}, n2 \in {0, 1}}
           \cup {Bin(c, Bin("/", FL(1), Bin("-", FL(n1), FL(n2))), FL(0)) : c \in CmpOps, n1 \in {0, 1}, n2 \in {0, 1}}

\* @dump of every kind of value, alone, nested and empty
RawDump == {"@dump(" \o KName(i) \o ")" : i \in KI} \cup {"@dump([" \o KName(i) \o ", " \o KName(j) \o "])" : i \in KI, j \in {13, 15}}
           \cup {"@dump({a: " \o KName(i) \o "})" : i \in KI} \cup {"@dump([])", "@dump({})", "@dump([[]])", "@dump([[], {}])", "@dump({a: [], b: {}})", "@dump(\"\")",
                  "@dump([1, 2].slice(2))", "@dump(\"\".split(\",\"))", "@dump(nil)", "@dump(1.5, true, nil)"}
\* IEEE-754 facts about decimal literals that are not dyadic rationals (binary64, round to nearest even; the table was
\* computed once with a reference implementation): the value model cannot represent 0.1, but these comparisons have one
\* right answer, and an implementation that rounds "helpfully" gets them wrong
IeeeFacts == {<<"0.1 + 0.2 == 0.3", "0">>,
              <<"0.3 - 0.1 == 0.2", "0">>,
              <<"4.4 - 1.0 == 3.4", "0">>,
              <<"0.1 * 3.0 == 0.3", "0">>,
              <<"1.1 + 2.2 == 3.3", "0">>,
              <<"0.5 - 0.25 == 0.25", "1">>,
              <<"0.1 + 0.2 > 0.3", "1">>,
              <<"0.3 - 0.1 < 0.2", "1">>,
              <<"4.4 - 1.0 > 3.4", "1">>,
              <<"1.0 - 0.9 == 0.1", "0">>,
              <<"1.0 - 0.9 < 0.1", "1">>,
              <<"0.7 + 0.1 == 0.8", "0">>,
              <<"0.7 + 0.1 < 0.8", "1">>,
              <<"3.3 / 1.1 == 3.0", "0">>,
              <<"3.3 / 1.1 > 3.0", "0">>,
              <<"0.1 * 0.1 == 0.01", "0">>,
              <<"0.1 * 0.1 > 0.01", "1">>,
              <<"2.2 - 1.1 == 1.1", "1">>,
              <<"1.5 - 0.3 == 1.2", "1">>,
              <<"1.5 - 0.3 < 1.2", "0">>,
              <<"0.3 - 0.2 == 0.1", "0">>,
              <<"0.3 - 0.2 < 0.1", "1">>,
              <<"100.1 - 0.1 == 100.0", "1">>,
              <<"9.95 - 0.05 == 9.9", "0">>,
              <<"0.1 + 0.7 == 0.8", "0">>,
              <<"0.2 + 0.4 == 0.6", "0">>,
              <<"0.2 + 0.4 > 0.6", "1">>,
              <<"1.1 * 1.1 == 1.21", "0">>,
              <<"1.1 * 1.1 > 1.21", "1">>,
              <<"0.3 / 0.1 == 3.0", "0">>,
              <<"0.3 / 0.1 < 3.0", "1">>,
              <<"0.6 / 0.2 == 3.0", "0">>,
              <<"0.6 / 0.2 < 3.0", "1">>,
              <<"5.5 - 2.2 == 3.3", "1">>,
              <<"1.0 / 3.0 * 3.0 == 1.0", "1">>,
              <<"2.0 / 3.0 * 3.0 == 2.0", "1">>,
              <<"0.1 + 0.2 - 0.3 == 0.0", "0">>,
              <<"0.1 + 0.2 - 0.3 > 0.0", "1">>}

Cases ==
  CASE Family = "raw09" -> {[kind |-> "raw", src |-> r, b |-> 0, lay |-> "sp"] : r \in RawAny \cup RawDump}
    [] Family = "pairs"   -> {[kind |-> "tree", e |-> e, b |-> b, lay |-> l] : e \in Pairs, b \in {1, 2, 3, 4, 5}, l \in {"sp", "tight"}}
    [] Family = "pairsall" -> {[kind |-> "tree", e |-> e, b |-> b, lay |-> l] : e \in Pairs, b \in 1..7, l \in Layouts}
    [] Family = "triples" -> {[kind |-> "tree", e |-> e, b |-> b, lay |-> l] : e \in Triples, b \in {1, 2, 3, 5}, l \in {"sp", "full"}}
    [] Family = "mixed"   -> {[kind |-> "tree", e |-> e, b |-> b, lay |-> l] : e \in Mixed \cup Terns, b \in {1, 2, 3, 6, 7}, l \in {"sp", "tight", "par", "nl"}}
    [] Family = "members" -> {[kind |-> "tree", e |-> e, b |-> 8, lay |-> l] : e \in MemberOps, l \in {"sp", "tight", "par"}}
    [] Family = "faults"  -> {[kind |-> "tree", e |-> e, b |-> b, lay |-> l] : e \in Faults, b \in {1, 3}, l \in {"sp", "nl"}}
    [] Family = "assign"  -> {[kind |-> "assign", e |-> e, b |-> b, lay |-> l] : e \in Pairs \cup Terns \cup Mixed, b \in {1, 3}, l \in {"sp", "tight"}}
    [] Family = "ieee" -> {[kind |-> "tree", e |-> e, b |-> b, lay |-> "sp"] : e \in Ieee, b \in {10, 11, 12, 13}}
                          \cup {[kind |-> "tree", e |-> e, b |-> 12, lay |-> l] : e \in IeeeLit, l \in {"sp", "tight"}}
                          \* the same shapes over the int64 bounds and +-1: every operator on every ordered pair (min / -1 wraps, min % -1 is 0)
                          \cup {[kind |-> "tree", e |-> Bin(o, x, y), b |-> 7, lay |-> "sp"] : o \in Ops, x \in Vars4, y \in Vars4}
                          \cup {[kind |-> "tree", e |-> Bin(c, Bin(ar, x, y), z), b |-> 7, lay |-> "sp"] :
                                   c \in {"==", "<"}, ar \in {"+", "-", "*", "/", "%"}, x \in Vars4, y \in Vars4, z \in Vars4}
                          \cup {[kind |-> "tree", e |-> Bin(o, x, y), b |-> b, lay |-> "sp"] : o \in {"==", "!=", "+"}, x \in Vars4, y \in Vars4, b \in {14, 15}}
                          \cup {[kind |-> "tree", e |-> Tern(Bin(o, x, StrL("A")), y, StrL("no")), b |-> 15, lay |-> "sp"] : o \in {"==", "!="}, x \in Vars4, y \in Vars4}
                          \cup {[kind |-> "fact", src |-> "{{ " \o f[1] \o " }}", out |-> f[2], b |-> 0, lay |-> "sp"] : f \in IeeeFacts}
                          \cup {[kind |-> "fact", src |-> "{{ x = " \o f[1] \o " }}{{ x ? \"1\" : \"0\" }}", out |-> f[2], b |-> 0, lay |-> "sp"] : f \in IeeeFacts}
    [] Family = "kindsinfix" -> {[kind |-> "tree", e |-> e, b |-> 0, lay |-> "sp"] : e \in KindsInfix}
    [] Family = "kindsother" -> {[kind |-> "tree", e |-> e, b |-> 0, lay |-> l] : e \in KindsOther, l \in {"sp", "tight"}}
    [] Family = "reuse"   -> {[kind |-> "tree", e |-> e, b |-> b, lay |-> l] : e \in Reuse, b \in {1, 2, 3, 9}, l \in {"sp", "tight"}}
                             \cup {[kind |-> "multi", es |-> es, b |-> b, lay |-> "sp"] : es \in Multi, b \in {1, 2, 3, 9}}
    [] Family = "flat2"   -> {[kind |-> "toks", ts |-> ts, b |-> b, lay |-> l] : ts \in Flat2 \cup FlatLit, b \in {1, 2, 3, 4, 5, 6, 7}, l \in {"sp", "tight", "wide"}}
    [] Family = "flat3"   -> {[kind |-> "toks", ts |-> ts, b |-> b, lay |-> l] : ts \in Flat3, b \in {1, 2, 5}, l \in {"sp"}}

TreeOf(c) == IF c.kind = "fact" THEN NilL ELSE IF c.kind \in {"tree", "assign"} THEN c.e ELSE IF c.kind = "multi" THEN c.es[1] ELSE Parse(c.ts)
RECURSIVE MultiSrc(_)
MultiSrc(es) == IF es = <<>> THEN "" ELSE "{{ " \o Source(es[1], "sp") \o " }}" \o (IF Len(es) = 1 THEN "" ELSE "|" \o MultiSrc(Tail(es)))
\* C01: the right-hand side of an assignment is a complete expression
SrcOf(c) == CASE c.kind = "tree" -> PrintSrc(c.e, c.lay)
              [] c.kind \in {"raw", "fact"} -> c.src
              [] c.kind = "multi" -> MultiSrc(c.es)
              [] c.kind = "assign" -> Open(c.lay) \o JoinToks(<<T("word", "x"), T("assign", "=")>> \o Toks(c.e), c.lay) \o Close(c.lay)
                                      \o "|{{ x }}"
              [] OTHER -> Open(c.lay) \o JoinToks(c.ts, c.lay) \o Close(c.lay)

\* typed JSON encoding of values for the harness
RECURSIVE Enc(_)
Enc(v) == CASE v.t = "int" -> [t |-> "int", b |-> v.ib, o |-> v.io]
            [] v.t = "float" -> [t |-> "float", n |-> v.fn, e |-> v.fe]
            [] v.t = "str" -> [t |-> "str", v |-> v.s]
            [] v.t = "bool" -> [t |-> "bool", v |-> v.bv]
            [] v.t = "nil" -> [t |-> "nil"]
            [] v.t = "arr" -> [t |-> "arr", v |-> [i \in 1..Len(v.es) |-> Enc(v.es[i])]]
            [] v.t = "obj" -> [t |-> "obj", v |-> [i \in 1..Len(v.ps) |-> [k |-> v.ps[i].pk, v |-> Enc(v.ps[i].pv)]]]
EncData(bs) == [i \in 1..Len(bs) |-> [k |-> bs[i].n, v |-> Enc(bs[i].v)]]

Expect(v) == IF IsErr(v) THEN [kind |-> "err", why |-> v.why]
             ELSE IF IsUnspec(v) \/ ~Printable(v) THEN [kind |-> "any"]
             ELSE [kind |-> "out", out |-> Show(v)]
ExpectAssign(v) == IF IsErr(v) THEN [kind |-> "err", why |-> v.why]
                   ELSE IF IsUnspec(v) \/ ~Printable(v) THEN [kind |-> "any"]
                   ELSE [kind |-> "out", out |-> "|" \o Show(v)]

RECURSIVE MultiOut(_, _)
MultiOut(es, sc) == IF es = <<>> THEN [ok |-> TRUE, out |-> ""]
                    ELSE LET v == Ev(es[1], sc) IN
                         IF Bad(v) \/ ~Printable(v) THEN [ok |-> FALSE, bad |-> v]
                         ELSE LET r == MultiOut(Tail(es), sc) IN
                              IF ~r.ok THEN r ELSE [ok |-> TRUE, out |-> Show(v) \o (IF Len(es) = 1 THEN "" ELSE "|" \o r.out)]
ExpectMulti(c) == LET r == MultiOut(c.es, <<Bind(c.b)>>) IN
                  IF r.ok THEN [kind |-> "out", out |-> r.out] ELSE IF IsErr(r.bad) THEN [kind |-> "err", why |-> r.bad.why] ELSE [kind |-> "any"]
Record(c) == LET t == IF c.kind \in {"raw", "fact"} THEN NilL ELSE TreeOf(c)
                 v == Ev(t, <<Bind(c.b)>>) IN
             [src |-> SrcOf(c), data |-> EncData(Bind(c.b)),
              expect |-> IF c.kind = "fact" THEN [kind |-> "out", out |-> c.out] ELSE IF c.kind = "raw" THEN [kind |-> "any"] ELSE IF c.kind = "multi" THEN ExpectMulti(c) ELSE IF c.kind = "assign" THEN ExpectAssign(v) ELSE Expect(v),
              tags |-> <<Family, c.lay>>]

Init == case \in Cases /\ rec = [src |-> ""]
Next == rec.src = "" /\ rec' = Record(case) /\ UNCHANGED case
Spec == Init /\ [][Next]_vars

\* design-level invariants
InvRoundTrip == case.kind \in {"tree", "assign"} => RoundTrip(case.e)
InvParses == case.kind = "toks" => Parse(case.ts) # Fail
Gen == (rec.src # "" /\ Emit_) => PrintT(ToJson(rec))
=============================================================================
