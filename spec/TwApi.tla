-------------------------------- MODULE TwApi --------------------------------
(***************************************************************************)
(* Machine A: the public API with its package-level mutable state.         *)
(*                                                                         *)
(*   mode    textwire.usesTemplates                                        *)
(*   cfg     userConfig: [dir, ext, errorPage, debug]; fields are sticky   *)
(*           exactly as Configure merges them                              *)
(*   reg     customFunc: receiver type -> name -> function id              *)
(*   loaded  a Template has been loaded                                    *)
(*   pc, op, path, res   per goroutine: program counter, operation,        *)
(*           the path prefix read from shared state, result                *)
(*   sched   history variable: the (goroutine, step) sequence so far       *)
(*                                                                         *)
(* Template SEMANTICS is opaque here: pages are "ok" (renders), "bad"      *)
(* (fails at run time after producing output), "missing" (no such name),   *)
(* and the configured error page.  Operations are split at every access    *)
(* to shared state so that TLC explores every interleaving (C15) and every *)
(* history (C16).  DevA switches reproduce the pinned implementation:      *)
(* the string API writes `mode`, also when Response renders the built-in   *)
(* error page through it.                                                  *)
(***************************************************************************)
EXTENDS Integers, Sequences, FiniteSets, TLC

CONSTANTS G,              \* set of goroutine ids
          DevA,           \* deviation switches
          ErrPageExists   \* does the configured custom error page exist in the tree?
DevAIntended == [RenderWritesMode |-> FALSE]
DevAAsCoded  == [RenderWritesMode |-> TRUE]

VARIABLES mode, cfg, reg, loaded, pc, op, path, res, sched
avars == <<mode, cfg, reg, loaded, pc, op, path, res, sched>>
shared == <<mode, cfg, reg, loaded>>

Types == {"str", "arr", "int", "float", "bool"}
Cfg0 == [dir |-> "templates", ext |-> ".tw.html", errorPage |-> "", debug |-> FALSE]
\* textwire.Configure: empty fields keep the previous value (sticky), debug is always overwritten
Merge(c, o) == [dir |-> IF o.dir = "" THEN c.dir ELSE o.dir, ext |-> IF o.ext = "" THEN c.ext ELSE o.ext,
                errorPage |-> IF o.errorPage = "" THEN c.errorPage ELSE o.errorPage, debug |-> o.debug]

\* ---- operations ----
\* [k |-> "String" | "Response" | "EvalString" | "EvalFile", page |-> "ok" | "bad" | "missing"]
Op(k, page) == [k |-> k, page |-> page]
PathOf(page, m, c) == (IF m THEN c.dir \o "/" ELSE "") \o page \o c.ext
\* names that are no template although a file can be found behind some of them: no such file, a layout, other spellings
\* of a page's path, a page's file name
NotTemplates == {"missing", "layouts/main", "/ok", "layouts/../ok", "ok.tw", "./ok"}
\* what String(page) returns given the path prefix it computed
StringResult(page, p) == CASE page = "ok" -> [ok |-> TRUE, out |-> "page:ok"]
                           [] page = "ok2" -> [ok |-> TRUE, out |-> "page:ok2"]        \* another page of the same layout
                           [] page = "bare" -> [ok |-> TRUE, out |-> "page:bare"]      \* a page of that layout without any insert
                           [] page = "static" -> [ok |-> TRUE, out |-> "page:static"]  \* text and argument-less components that read the caller's data
                           [] page \in {"bad", "bad-in-component", "bad-in-layout", "bad-at-start", "bad-in-loop", "bad-in-slot", "bad-in-insert", "bad-in-array", "bad-in-args", "bad-in-object", "bad-in-for-cond", "bad-in-elseif", "bad-in-each-else", "bad-in-for-else", "bad-lt", "bad-in-assign", "bad-in-unused-arg", "bad-in-shadowed-arg", "bad-after-long", "nested-use"} ->
                                  [ok |-> FALSE, err |-> "runtime error", at |-> p]      \* fails at different points of the render
                           [] page \in NotTemplates -> [ok |-> FALSE, err |-> "template not found", at |-> p]
                           [] page = "errpage" -> [ok |-> TRUE, out |-> "page:custom-error"]
                           [] page \in {"row1", "row2"} -> [ok |-> TRUE, out |-> "page:row"]   \* data: two struct types that share a name
                           [] page \in {"polyS", "polyA", "polyI"} -> [ok |-> TRUE, out |-> "page:poly"]   \* one template, receivers of three types
                           [] page = "okbad" -> [ok |-> FALSE, err |-> "unsupported value in the data", at |-> p]   \* page ok with data that cannot be converted
                           [] page = "argOk" -> [ok |-> TRUE, out |-> "page:argdep"]           \* one page, a component argument that this data map satisfies ...
                           [] page = "argBad" -> [ok |-> FALSE, err |-> "runtime error", at |-> p]    \* ... and one it does not
                           [] page = "shared" -> [ok |-> TRUE, out |-> "page:shared"]           \* data behind a pointer the caller changes between calls
                           [] page = "usesfn" -> [ok |-> TRUE, out |-> "page:usesfn"]           \* a page that calls custom functions
                           [] page = "floatdec" -> [ok |-> TRUE, out |-> "page:floatdec"]       \* number literals under ++ / --
                           [] page \in {"lastA", "lastB", "lastC"} -> [ok |-> TRUE, out |-> "page:lastof"]        \* one template, arrays of three lengths
                           [] page \in {"dotS", "dotM"} -> [ok |-> TRUE, out |-> "page:dotcase"]           \* one template, a struct / a map behind the same property names
                           [] page = "setvar" -> [ok |-> TRUE, out |-> "page:setvar"]      \* rendered with nil data, assigns a top-level name
                           [] page = "getvar" -> [ok |-> FALSE, err |-> "identifier not found", at |-> p]   \* nil data, reads that name
\* ("illegal": a source with an illegal character; "chanfn": a custom function whose result cannot be converted - both fail,
\* and fail alone)
EvalResult(page) == IF page \in {"ok", "setvar", "row1", "row2", "sameprintI", "sameprintS", "customfn"} THEN [ok |-> TRUE, out |-> "str:" \o page] ELSE [ok |-> FALSE, err |-> "runtime error", at |-> ""]
\* C17: which body Response writes
BuiltinBody(c, r) == IF c.debug THEN [page |-> "builtin", shows |-> {r.err, r.at}] ELSE [page |-> "builtin", shows |-> {}]
ResponseResult(c, r, custom) ==        \* r: result of String(name); custom: result of String(errorPage) or "none"
  IF r.ok THEN [ok |-> TRUE, body |-> [page |-> "rendered", shows |-> {}]]
  ELSE IF c.errorPage # "" /\ ~c.debug
       THEN IF custom.ok THEN [ok |-> FALSE, err |-> r.err, at |-> r.at, body |-> [page |-> "custom", shows |-> {}]]
            ELSE [ok |-> FALSE, err |-> custom.err, at |-> custom.at, body |-> [page |-> "empty", shows |-> {}]]
       ELSE [ok |-> FALSE, err |-> r.err, at |-> r.at, body |-> BuiltinBody(c, r)]

\* the result of an operation issued alone on the loaded state (C16's oracle)
Solo(o, c, errpageExists) ==
  LET p == PathOf(o.page, TRUE, c)
      r == StringResult(o.page, p)
      cu == IF errpageExists THEN StringResult("errpage", PathOf(c.errorPage, TRUE, c))
            ELSE StringResult("missing", PathOf(c.errorPage, TRUE, c)) IN
  CASE o.k = "String" -> r
    [] o.k = "Response" -> ResponseResult(c, r, cu)
    [] o.k \in {"EvalString", "EvalFile"} -> EvalResult(o.page)

\* ---- steps (one per access to shared state) ----
Rec(g, step) == sched' = Append(sched, [g |-> g, step |-> step])
Begin(g, o) == /\ pc[g] = "idle" /\ loaded
               /\ op' = [op EXCEPT ![g] = o]
               /\ pc' = [pc EXCEPT ![g] = IF o.k \in {"String", "Response"} THEN "readMode" ELSE "writeMode"]
               /\ UNCHANGED <<shared, path, res, sched>>
\* files.go getFullPath: reads usesTemplates and the configuration
ReadMode(g) == /\ pc[g] = "readMode"
               /\ path' = [path EXCEPT ![g] = PathOf(op[g].page, mode, cfg)]
               /\ pc' = [pc EXCEPT ![g] = "eval"] /\ Rec(g, "readMode")
               /\ UNCHANGED <<shared, op, res>>
Eval(g) == /\ pc[g] = "eval"
           /\ LET r == StringResult(op[g].page, path[g]) IN
              IF op[g].k = "String" \/ r.ok
              THEN /\ res' = [res EXCEPT ![g] = IF op[g].k = "String" THEN r ELSE ResponseResult(cfg, r, r)]
                   /\ pc' = [pc EXCEPT ![g] = "done"]
              ELSE /\ res' = [res EXCEPT ![g] = r]
                   /\ pc' = [pc EXCEPT ![g] = IF cfg.errorPage # "" /\ ~cfg.debug THEN "readModeCustom" ELSE "writeModeBuiltin"]
           /\ Rec(g, "eval") /\ UNCHANGED <<shared, op, path>>
\* template.go responseErrorPage: String(userConfig.ErrorPagePath)
ReadModeCustom(g) == /\ pc[g] = "readModeCustom"
                     /\ LET p == PathOf(cfg.errorPage, mode, cfg)
                            cu == IF ErrPageExists THEN StringResult("errpage", p) ELSE StringResult("missing", p) IN
                        res' = [res EXCEPT ![g] = ResponseResult(cfg, res[g], cu)]
                     /\ pc' = [pc EXCEPT ![g] = "done"] /\ Rec(g, "readMode")
                     /\ UNCHANGED <<shared, op, path>>
\* utils.go errorPage -> EvaluateString(defaultErrorPage): as coded this writes usesTemplates
WriteModeBuiltin(g) == /\ pc[g] = "writeModeBuiltin"
                       /\ mode' = IF DevA.RenderWritesMode THEN FALSE ELSE mode
                       /\ res' = [res EXCEPT ![g] = ResponseResult(cfg, res[g], res[g])]
                       /\ pc' = [pc EXCEPT ![g] = "done"] /\ Rec(g, "writeMode")
                       /\ UNCHANGED <<cfg, reg, loaded, op, path>>
\* textwire.go EvaluateString / EvaluateFile: as coded `usesTemplates = false`
WriteMode(g) == /\ pc[g] = "writeMode"
                /\ mode' = IF DevA.RenderWritesMode THEN FALSE ELSE mode
                /\ res' = [res EXCEPT ![g] = EvalResult(op[g].page)]
                /\ pc' = [pc EXCEPT ![g] = "done"] /\ Rec(g, "writeMode")
                /\ UNCHANGED <<cfg, reg, loaded, op, path>>
\* a finished goroutine may issue another operation (histories)
Again(g) == /\ pc[g] = "done" /\ pc' = [pc EXCEPT ![g] = "idle"] /\ UNCHANGED <<shared, op, path, res, sched>>

\* ---- registry (C20) ----
Register(t, n, f) == /\ reg' = IF n \in DOMAIN reg[t] THEN reg ELSE [reg EXCEPT ![t] = [x \in DOMAIN @ \cup {n} |-> IF x = n THEN f ELSE @[x]]]
                     /\ UNCHANGED <<mode, cfg, loaded, pc, op, path, res, sched>>
RegisterOk(t, n) == n \notin DOMAIN reg[t]
\* NewTemplate(opt): Configure, then load
NewTemplate(o) == /\ mode' = TRUE /\ cfg' = Merge(cfg, o) /\ loaded' = TRUE
                  /\ UNCHANGED <<reg, pc, op, path, res, sched>>

ApiInit(c) == /\ mode = TRUE /\ cfg = c /\ reg = [t \in Types |-> <<>>] /\ loaded = TRUE
              /\ pc = [g \in G |-> "idle"] /\ op = [g \in G |-> Op("String", "ok")]
              /\ path = [g \in G |-> ""] /\ res = [g \in G |-> [ok |-> TRUE, out |-> ""]] /\ sched = <<>>
StepOf(g) == ReadMode(g) \/ Eval(g) \/ ReadModeCustom(g) \/ WriteModeBuiltin(g) \/ WriteMode(g)

\* ---- properties ----
\* C15 / C16: every call returns exactly what it returns when run alone
SoloEq == \A g \in G : pc[g] = "done" => res[g] = Solo(op[g], cfg, ErrPageExists)
\* C16: rendering leaves the loaded templates, the configuration and the registry unchanged
RenderFramesState == [][(\E g \in G : StepOf(g) \/ Begin(g, op'[g]) \/ Again(g)) => UNCHANGED shared]_avars
\* C17: the body is the page iff rendering succeeded; otherwise exactly one error page, chosen by configuration;
\* with debug off it shows neither the message nor a path
ResponseBody == \A g \in G : (pc[g] = "done" /\ op[g].k = "Response") =>
   LET r == res[g] IN
   /\ r.ok <=> r.body.page = "rendered"
   /\ ~r.ok => r.body.page = (IF cfg.errorPage # "" /\ ~cfg.debug THEN (IF ErrPageExists THEN "custom" ELSE "empty") ELSE "builtin")
   /\ ~cfg.debug => r.body.shows = {}
   /\ (cfg.debug /\ ~r.ok) => r.body.shows = {r.err, r.at}
=============================================================================
