------------------------------- MODULE TwValues -------------------------------
(***************************************************************************)
(* The value domain of machine E (the evaluator) and the typed operators   *)
(* of C01, C02, C09, C10, C12.                                             *)
(*                                                                         *)
(* TLC integers are 32-bit, so an Int is an ANCHORED integer [b, o]:       *)
(*   b = "z"   the small value o                                           *)
(*   b = "max" 2^63 - 1 + o  (o <= 0, small)                               *)
(*   b = "min" -2^63 + o     (o >= 0, small)                               *)
(* + - ++ -- and unary minus wrap exactly as two's-complement int64 does;  *)
(* * / % are defined on small values and on the boundary cases with 0, 1,  *)
(* -1; everything else is OUTSIDE THE MODEL (Unspec) and never generated.  *)
(* A Float is an exact dyadic rational n / 2^e, on which + - * and the     *)
(* comparisons coincide with IEEE-754 double for the small operands used.  *)
(*                                                                         *)
(* A result is a value, Err(why) where a property DEMANDS an error, or     *)
(* Unspec where no property fixes the outcome (the harness then only       *)
(* requires "no panic, returns").                                          *)
(***************************************************************************)
EXTENDS Integers, Sequences, TLC

I(n)   == [t |-> "int", ib |-> "z", io |-> n]
IMax(o) == [t |-> "int", ib |-> "max", io |-> o]
IMin(o) == [t |-> "int", ib |-> "min", io |-> o]
F(n, e) == [t |-> "float", fn |-> n, fe |-> e]
S(s)   == [t |-> "str", s |-> s]
B(b)   == [t |-> "bool", bv |-> b]
Nil    == [t |-> "nil"]
A(es)  == [t |-> "arr", es |-> es]
O(ps)  == [t |-> "obj", ps |-> ps]         \* sequence of [pk |-> key, pv |-> value], keys distinct
Err(w) == [t |-> "err", why |-> w]
Unspec == [t |-> "unspec"]

IsErr(v) == v.t = "err"
IsUnspec(v) == v.t = "unspec"
Bad(v) == v.t \in {"err", "unspec"}

(* ------------------------------ integers ------------------------------ *)
Pow2(e) == CASE e = 0 -> 1 [] e = 1 -> 2 [] e = 2 -> 4 [] e = 3 -> 8 [] e = 4 -> 16 [] e = 5 -> 32 [] e = 6 -> 64
Pow5(e) == CASE e = 0 -> 1 [] e = 1 -> 5 [] e = 2 -> 25 [] e = 3 -> 125 [] e = 4 -> 625 [] e = 5 -> 3125 [] e = 6 -> 15625

\* normalise an anchored sum: anchors count as multiples of 2^63 (max = 2^63 - 1, min = -2^63); 2^64 == 0
\* k = number of 2^63 units (mod 2), r = small remainder
NormInt(k, r) ==    \* value == k * 2^63 + r  (mod 2^64), k in Int, r small
  LET km == k % 2 IN
  IF km = 0 THEN I(r)
  ELSE \* 2^63 + r : as int64 this is min + r when r >= 0, max + (r + 1) when r < 0
       IF r >= 0 THEN IMin(r) ELSE IMax(r + 1)
Units(x) == CASE x.ib = "z" -> 0 [] x.ib = "max" -> 1 [] x.ib = "min" -> -1
Rem(x)   == CASE x.ib = "z" -> x.io [] x.ib = "max" -> x.io - 1 [] x.ib = "min" -> x.io
IAdd(x, y) == NormInt(Units(x) + Units(y), Rem(x) + Rem(y))
INeg(x)    == NormInt(-Units(x), -Rem(x))
ISub(x, y) == NormInt(Units(x) - Units(y), Rem(x) - Rem(y))
IsSmall(x) == x.ib = "z"
IMul(x, y) == IF IsSmall(x) /\ IsSmall(y) THEN I(x.io * y.io)
              ELSE IF IsSmall(y) /\ y.io = 0 THEN I(0) ELSE IF IsSmall(x) /\ x.io = 0 THEN I(0)
              ELSE IF IsSmall(y) /\ y.io = 1 THEN x ELSE IF IsSmall(x) /\ x.io = 1 THEN y
              ELSE IF IsSmall(y) /\ y.io = -1 THEN INeg(x) ELSE IF IsSmall(x) /\ x.io = -1 THEN INeg(y)
              ELSE Unspec
\* Go's truncated division and remainder (sign of the remainder follows the dividend)
AbsI(a) == IF a < 0 THEN -a ELSE a
TDiv(a, b) == LET q == AbsI(a) \div AbsI(b) IN IF (a < 0) # (b < 0) THEN -q ELSE q
TMod(a, b) == a - b * TDiv(a, b)
IsZero(x) == IsSmall(x) /\ x.io = 0
IDiv(x, y) == IF IsZero(y) THEN Err("division by zero")                   \* C01: integer division by zero fails
              ELSE IF IsSmall(x) /\ IsSmall(y) THEN I(TDiv(x.io, y.io))
              ELSE IF IsSmall(y) /\ y.io = 1 THEN x
              ELSE IF IsSmall(y) /\ y.io = -1 THEN INeg(x)               \* min / -1 = min (wraps)
              ELSE IF IsSmall(x) THEN I(0)                               \* |x| < |y|
              ELSE Unspec
IMod(x, y) == IF IsZero(y) THEN Err("modulo by zero")                     \* C01: integer modulo by zero fails
              ELSE IF IsSmall(x) /\ IsSmall(y) THEN I(TMod(x.io, y.io))
              ELSE IF IsSmall(y) /\ y.io \in {1, -1} THEN I(0)
              ELSE IF IsSmall(x) THEN x                                  \* |x| < |y|
              ELSE Unspec
Rank(x) == CASE x.ib = "min" -> 0 [] x.ib = "z" -> 1 [] x.ib = "max" -> 2
ILess(x, y) == Rank(x) < Rank(y) \/ (Rank(x) = Rank(y) /\ x.io < y.io)
IEq(x, y) == x.ib = y.ib /\ x.io = y.io

Pad3(n) == IF n < 10 THEN "00" \o ToString(n) ELSE IF n < 100 THEN "0" \o ToString(n) ELSE ToString(n)
ShowInt(x) == CASE x.ib = "z" -> ToString(x.io)
                [] x.ib = "max" -> "9223372036854775" \o Pad3(807 + x.io)
                [] x.ib = "min" -> "-9223372036854775" \o Pad3(808 - x.io)

(* ------------------------------- floats ------------------------------- *)
RECURSIVE NormF(_, _)
NormF(n, e) == IF e > 0 /\ n % 2 = 0 THEN NormF(n \div 2, e - 1) ELSE F(n, e)
\* IEEE-754 special values: F(0, -1) is NaN, F(1, -1) is +Inf, F(-1, -1) is -Inf, F(0, -2) is -0 (a negative exponent
\* marks them). They arise from float division by zero, from negating zero and from the data map; C01 asks for IEEE-754
\* semantics on them as on every other double.
NaN == F(0, -1)
PInf == F(1, -1)
NInf == F(-1, -1)
NZero == F(0, -2)
IsSpecial(x) == x.fe < 0
IsNaN(x) == x.fe = -1 /\ x.fn = 0
IsInf(x) == x.fe = -1 /\ x.fn # 0
IsNZ(x) == x.fe = -2
FZero(x) == IsNZ(x) \/ (x.fe >= 0 /\ x.fn = 0)
SignBit(x) == IsNZ(x) \/ x.fn < 0                \* of zeros, finite values and infinities
Fin(x) == IF IsNZ(x) THEN F(0, 0) ELSE x          \* the magnitude: -0 compares and adds like 0
Sign(x) == IF x.fn < 0 THEN -1 ELSE IF x.fn > 0 THEN 1 ELSE 0
InfOf(sg) == IF sg < 0 THEN NInf ELSE PInf
InfB(neg) == IF neg THEN NInf ELSE PInf
ZeroB(neg) == IF neg THEN NZero ELSE F(0, 0)
FAdd(x, y) == IF IsNaN(x) \/ IsNaN(y) THEN NaN
              ELSE IF IsInf(x) /\ IsInf(y) THEN (IF x.fn = y.fn THEN x ELSE NaN)
              ELSE IF IsInf(x) THEN x ELSE IF IsInf(y) THEN y
              ELSE IF FZero(x) /\ FZero(y) THEN ZeroB(IsNZ(x) /\ IsNZ(y))      \* -0 + -0 = -0, every other sum of zeros is +0
              ELSE IF FZero(x) THEN y ELSE IF FZero(y) THEN x
              ELSE LET e == IF x.fe > y.fe THEN x.fe ELSE y.fe IN
                   NormF(x.fn * Pow2(e - x.fe) + y.fn * Pow2(e - y.fe), e)       \* x + (-x) = +0
FNeg(x) == IF IsNaN(x) THEN NaN ELSE IF IsInf(x) THEN F(-x.fn, -1) ELSE IF IsNZ(x) THEN F(0, 0)
           ELSE IF x.fn = 0 THEN NZero ELSE F(-x.fn, x.fe)
FSub(x, y) == FAdd(x, FNeg(y))
FMul(x, y) == IF IsNaN(x) \/ IsNaN(y) THEN NaN
              ELSE IF IsInf(x) \/ IsInf(y) THEN (IF FZero(x) \/ FZero(y) THEN NaN ELSE InfB(SignBit(x) # SignBit(y)))
              ELSE IF FZero(x) \/ FZero(y) THEN ZeroB(SignBit(x) # SignBit(y))
              ELSE NormF(x.fn * y.fn, x.fe + y.fe)
\* x / y: division by a zero gives an infinity or NaN; a finite quotient is modelled only when it is again a short
\* dyadic rational
FDiv(x, y) == IF IsNaN(x) \/ IsNaN(y) THEN NaN
              ELSE IF IsInf(x) /\ IsInf(y) THEN NaN
              ELSE IF IsInf(x) THEN InfB(SignBit(x) # SignBit(y))
              ELSE IF IsInf(y) THEN ZeroB(SignBit(x) # SignBit(y))
              ELSE IF FZero(y) THEN (IF FZero(x) THEN NaN ELSE InfB(SignBit(x) # SignBit(y)))
              ELSE IF FZero(x) THEN ZeroB(SignBit(x) # SignBit(y))
              ELSE LET num == x.fn * Pow2(y.fe)      \* x / y = (x.fn * 2^y.fe) / (y.fn * 2^x.fe)
                       an == IF y.fn < 0 THEN -y.fn ELSE y.fn
                       sg == IF y.fn < 0 THEN -1 ELSE 1 IN
                   IF num % an = 0 THEN NormF(sg * (num \div an), x.fe) ELSE Unspec
\* comparisons: NaN is unordered (every comparison with it is false, only != is true); -0 equals +0
FLess(x, y) == IF IsNaN(x) \/ IsNaN(y) THEN FALSE
               ELSE IF IsInf(x) \/ IsInf(y) THEN
                    (IF IsInf(x) /\ IsInf(y) THEN x.fn < y.fn ELSE IF IsInf(x) THEN x.fn < 0 ELSE y.fn > 0)
               ELSE LET a == Fin(x)  b == Fin(y)
                        e == IF a.fe > b.fe THEN a.fe ELSE b.fe IN a.fn * Pow2(e - a.fe) < b.fn * Pow2(e - b.fe)
FEq(x, y) == ~IsNaN(x) /\ ~IsNaN(y) /\ Fin(x) = Fin(y)     \* both normalised
FLe(x, y) == FLess(x, y) \/ FEq(x, y)
PadZ(s, w) == LET RECURSIVE P(_) P(t) == IF Len(t) >= w THEN t ELSE P("0" \o t) IN P(s)
ShowFloat(x) == IF IsSpecial(x) THEN "<how NaN, the infinities and -0 print is not fixed by any property>"
                ELSE IF x.fe = 0 THEN ToString(x.fn) \o ".0"
                ELSE LET an == IF x.fn < 0 THEN -x.fn ELSE x.fn
                         ip == an \div Pow2(x.fe)
                         fr == (an % Pow2(x.fe)) * Pow5(x.fe)
                     IN (IF x.fn < 0 THEN "-" ELSE "") \o ToString(ip) \o "." \o PadZ(ToString(fr), x.fe)

(* ------------------------------ printing ------------------------------ *)
RECURSIVE Show(_)
RECURSIVE JoinShow(_, _)
JoinShow(vs, sep) == IF vs = <<>> THEN "" ELSE IF Len(vs) = 1 THEN Show(vs[1])
                     ELSE Show(vs[1]) \o sep \o JoinShow(Tail(vs), sep)
Show(v) == CASE v.t = "int" -> ShowInt(v)
             [] v.t = "float" -> ShowFloat(v)
             [] v.t = "str" -> v.s
             [] v.t = "bool" -> IF v.bv THEN "1" ELSE "0"
             [] v.t = "nil" -> ""
             [] v.t = "arr" -> JoinShow(v.es, ", ")
             [] v.t = "obj" -> IF Len(v.ps) = 0 THEN "{}"
                               ELSE IF Len(v.ps) = 1 THEN "{" \o v.ps[1].pk \o ": " \o Show(v.ps[1].pv) \o "}"
                               ELSE "<object printing order is not fixed by any property>"
             [] OTHER -> "<" \o v.t \o ">"
\* is the printed form of v fixed by the properties?
RECURSIVE Printable(_)
Printable(v) == CASE v.t \in {"err", "unspec"} -> FALSE
                  [] v.t = "float" -> ~IsSpecial(v)
                  [] v.t = "arr" -> \A i \in 1..Len(v.es) : Printable(v.es[i])
                  [] v.t = "obj" -> Len(v.ps) <= 1 /\ \A i \in 1..Len(v.ps) : Printable(v.ps[i].pv)
                  [] OTHER -> TRUE

(* ----------------------------- truthiness (C02) ----------------------------- *)
Truthy(v) == CASE v.t = "bool" -> v.bv
               [] v.t = "int" -> ~IsZero(v)
               [] v.t = "float" -> ~FZero(v)                     \* a float is falsy exactly when it is zero (+0 or -0)
               [] v.t = "str" -> v.s # ""
               [] v.t = "nil" -> FALSE
               [] OTHER -> TRUE          \* arrays and objects, also empty ones

(* ------------------------------ operators ------------------------------ *)
BoolV(b) == B(b)
Infix(op, a, b) ==
  IF a.t # b.t THEN Err("type mismatch")                                   \* C01: mixed operand types fail
  ELSE CASE a.t = "int" ->
              (CASE op = "+" -> IAdd(a, b) [] op = "-" -> ISub(a, b) [] op = "*" -> IMul(a, b)
                 [] op = "/" -> IDiv(a, b) [] op = "%" -> IMod(a, b)
                 [] op = "==" -> BoolV(IEq(a, b)) [] op = "!=" -> BoolV(~IEq(a, b))
                 [] op = "<" -> BoolV(ILess(a, b)) [] op = ">" -> BoolV(ILess(b, a))
                 [] op = "<=" -> BoolV(~ILess(b, a)) [] op = ">=" -> BoolV(~ILess(a, b)))
         [] a.t = "float" ->
              (CASE op = "+" -> FAdd(a, b) [] op = "-" -> FSub(a, b) [] op = "*" -> FMul(a, b)
                 [] op = "/" -> FDiv(a, b) [] op = "%" -> Unspec
                 [] op = "==" -> BoolV(FEq(a, b)) [] op = "!=" -> BoolV(~FEq(a, b))
                 [] op = "<" -> BoolV(FLess(a, b)) [] op = ">" -> BoolV(FLess(b, a))
                 [] op = "<=" -> BoolV(FLe(a, b)) [] op = ">=" -> BoolV(FLe(b, a)))
         [] a.t = "str" ->
              (CASE op = "+" -> S(a.s \o b.s) [] op = "==" -> BoolV(a.s = b.s) [] op = "!=" -> BoolV(a.s # b.s)
                 [] OTHER -> Unspec)
         [] OTHER -> Unspec          \* booleans, nil, arrays, objects: no property fixes their operators
Neg(a) == CASE a.t = "int" -> INeg(a) [] a.t = "float" -> FNeg(a) [] OTHER -> Unspec
Not(a) == IF a.t = "bool" THEN B(~a.bv) ELSE Unspec
Postfix(op, a) == CASE a.t = "int" -> (IF op = "++" THEN IAdd(a, I(1)) ELSE ISub(a, I(1)))
                    [] a.t = "float" -> (IF op = "++" THEN FAdd(a, F(1, 0)) ELSE FSub(a, F(1, 0)))
                    [] OTHER -> Unspec

\* C12: a field is reachable also with its first letter lower-cased. TLA+ strings cannot be indexed, so the
\* upper-casing of the first letter is a table over the key names the bounded families use.
UpperKey(k) == CASE k = "a" -> "A" [] k = "b" -> "B" [] k = "k" -> "K" [] k = "n" -> "N" [] k = "x" -> "X" [] k = "y" -> "Y"
                 [] k = "name" -> "Name" [] k = "age" -> "Age" [] k = "tags" -> "Tags" [] k = "inner" -> "Inner"
                 [] k = "val" -> "Val" [] k = "f" -> "F" [] k = "p" -> "P" [] k = "q" -> "Q" [] k = "s" -> "S"
                 [] k = "index" -> "Index" [] k = "iter" -> "Iter" [] k = "first" -> "First" [] k = "last" -> "Last"
                 [] OTHER -> k
HasKey(o, k) == \E i \in 1..Len(o.ps) : o.ps[i].pk = k
GetKey(o, k) == o.ps[CHOOSE i \in 1..Len(o.ps) : o.ps[i].pk = k].pv
Prop(o, k) ==
  IF o.t # "obj" THEN Unspec                         \* C09: an error (or a defined result), never a panic
  ELSE IF k = "" THEN Unspec
  ELSE IF HasKey(o, k) THEN GetKey(o, k)
  ELSE IF HasKey(o, UpperKey(k)) THEN GetKey(o, UpperKey(k))
  ELSE Err("property not found")
Index(a, i) ==
  CASE a.t = "arr" /\ i.t = "int" ->
         (IF IsSmall(i) /\ i.io >= 0 /\ i.io < Len(a.es) THEN a.es[i.io + 1] ELSE Unspec)   \* out of range: defined result or error
    [] a.t = "obj" /\ i.t = "str" -> Prop(a, i.s)
    [] OTHER -> Unspec
=============================================================================
