-------------------------------- MODULE TwEval --------------------------------
(***************************************************************************)
(* Machine E: the evaluator as a small-step state machine at statement     *)
(* level (expressions are evaluated big-step by TwExpr!Ev, they have no    *)
(* side effects).                                                          *)
(*                                                                         *)
(*   prog   the statements of the template (constant per behaviour)        *)
(*   ctrl   control stack, top = last element; frames:                     *)
(*            [f |-> "seq",  ss, i]            next statement of a list     *)
(*            [f |-> "scope"]                  end of a block scope         *)
(*            [f |-> "each", var, elems, i, body]   i passes started        *)
(*            [f |-> "for",  cond, post, var, body, n]  n passes started    *)
(*   env    scope chain, innermost first (C04): one scope per @if branch,  *)
(*          @each, @for and component, plus the root scope holding data    *)
(*   out    output chunks emitted so far                                   *)
(*   status "run" | "done" | "err" | "unspec"                              *)
(*   why    reason of the failure / of leaving the specified domain        *)
(*   eline  line of the failing construct (C13), 0 when not applicable     *)
(*                                                                         *)
(* Statements (records with field k):                                      *)
(*   html(s) print(e) assign(n, e) if(cs, els) each(var, arr, body, els)   *)
(*   for(init, cond, post, body, els) break continue breakif(c)            *)
(*   continueif(c)        -- every statement carries its source line `ln`   *)
(***************************************************************************)
EXTENDS TwExpr, SequencesExt, FiniteSets

VARIABLES prog, ctrl, env, out, status, why, eline
evars == <<prog, ctrl, env, out, status, why, eline>>

NoElse == <<[k |-> "noelse"]>>        \* distinguishes "no @else" from an @else with an empty body
HasElse(s) == s.els # NoElse

Html(s, ln)        == [k |-> "html", s |-> s, ln |-> ln]
PrintS(e, ln)      == [k |-> "print", e |-> e, ln |-> ln]
Assign(n, e, ln)   == [k |-> "assign", n |-> n, e |-> e, ln |-> ln]
If(cs, els, ln)    == [k |-> "if", cs |-> cs, els |-> els, ln |-> ln]      \* cs: sequence of [c |-> cond, body |-> stmts, ln]
Each(v, a, b, els, ln) == [k |-> "each", var |-> v, arr |-> a, body |-> b, els |-> els, ln |-> ln]
For(i, c, p, b, els, ln) == [k |-> "for", init |-> i, cond |-> c, post |-> p, body |-> b, els |-> els, ln |-> ln]
NoInit == [k |-> "noinit"]            \* @for(; cond; post): no name is bound by the header, the loop is a block all the same
NoPost == [k |-> "nopost"]            \* (a post clause is an expression whose value goes to the init name, or - without init - an assignment)
Break(ln)          == [k |-> "break", ln |-> ln]
Continue(ln)       == [k |-> "continue", ln |-> ln]
BreakIf(c, ln)     == [k |-> "breakif", c |-> c, ln |-> ln]
ContinueIf(c, ln)  == [k |-> "continueif", c |-> c, ln |-> ln]

\* a reference to a layout / component file: written "~n" when alias, resolved against "layouts/" or "components/"
NoUse == [alias |-> FALSE, n |-> ""]
Ref(n) == [alias |-> FALSE, n |-> n]
Alias(n) == [alias |-> TRUE, n |-> n]
\* (RefVia: the same file written with a path prefix that changes nothing - "./", "layouts/../")
RefVia(pre, n) == [alias |-> FALSE, n |-> n, pre |-> pre]
Written(r) == IF r.alias THEN "~" \o r.n ELSE IF "pre" \in DOMAIN r THEN r.pre \o r.n ELSE r.n
Resolve(r, prefix) == IF r.alias THEN prefix \o "/" \o r.n ELSE r.n
\* statements of template trees (machine K links them, see TwLink): unlinked forms as written in a file ...
Reserve(n, ln)         == [k |-> "reserve", name |-> n, ln |-> ln]
UseS(r, ln)            == [k |-> "use", ref |-> r, ln |-> ln]          \* a @use written somewhere inside a file's body
InsertB(n, body, ln)   == [k |-> "insert", name |-> n, form |-> "block", body |-> body, ln |-> ln]
InsertE(n, e, ln)      == [k |-> "insert", name |-> n, form |-> "expr", e |-> e, ln |-> ln]
Comp(n, args, slots, ln) == [k |-> "comp", name |-> n, args |-> args, slots |-> slots, ln |-> ln]   \* args: seq of [key, ex]; slots: seq of [name, body]
Slot(n, ln)            == [k |-> "slot", name |-> n, ln |-> ln]
\* ... and linked forms produced by TwLink
XReserveB(body, ln)    == [k |-> "xreserveb", body |-> body, ln |-> ln]
XReserveE(e, ln)       == [k |-> "xreservee", e |-> e, ln |-> ln]
XComp(args, body, ln)  == [k |-> "xcomp", args |-> args, body |-> body, ln |-> ln]
XSlot(body, ln)        == [k |-> "xslot", body |-> body, ln |-> ln]

Top == ctrl[Len(ctrl)]
Pop(st) == SubSeq(st, 1, Len(st) - 1)
SeqF(ss) == [f |-> "seq", ss |-> ss, i |-> 1]
ScopeF == [f |-> "scope"]

(* ------------------------------ environment ------------------------------ *)
RECURSIVE BindIn(_, _, _)
BindIn(scope, n, v) == IF scope = <<>> THEN <<[n |-> n, v |-> v]>>
                       ELSE IF scope[1].n = n THEN <<[n |-> n, v |-> v]>> \o Tail(scope)
                       ELSE <<scope[1]>> \o BindIn(Tail(scope), n, v)
\* object.Env.Set: the name 'loop' is reserved, a visible name never changes type, the innermost scope is written
SetVar(sc, n, v) ==
  IF n = "loop" THEN Err("loop is reserved")
  ELSE LET old == Lookup(sc, n) IN
       IF ~IsErr(old) /\ old.t # v.t THEN Err("variable type mismatch")
       ELSE [t |-> "env", sc |-> <<BindIn(sc[1], n, v)>> \o Tail(sc)]
LoopObj(i, n) == O(<<[pk |-> "index", pv |-> I(i - 1)], [pk |-> "first", pv |-> B(i = 1)],
                     [pk |-> "last", pv |-> B(i = n)], [pk |-> "iter", pv |-> I(i)]>>)
SetLoop(sc, i, n) == <<BindIn(sc[1], "loop", LoopObj(i, n))>> \o Tail(sc)

(* ------------------------------- outcomes ------------------------------- *)
Stop(st, w, ln) == /\ status' = st /\ why' = w /\ eline' = ln
                   /\ UNCHANGED <<prog, ctrl, env, out>>
\* a bad expression result ends the run: Err -> "err" (a property demands the failure), Unspec -> "unspec"
StopBad(v, ln) == IF IsErr(v) THEN Stop("err", v.why, ln) ELSE Stop("unspec", "outside the specified domain", 0)
Run == UNCHANGED <<prog, status, why, eline>>

\* replace the top "seq" frame by one that has advanced past the current statement
Advance == [ctrl EXCEPT ![Len(ctrl)] = [@ EXCEPT !.i = @ + 1]]

(* ---------------------------- break / continue ---------------------------- *)
\* number of frames to pop from the top so that the innermost loop frame becomes the top; 0 when there is none
RECURSIVE LoopDist(_, _)
LoopDist(st, d) == IF st = <<>> THEN -1
                   ELSE IF st[Len(st)].f \in {"each", "for"} THEN d
                   ELSE LoopDist(Pop(st), d + 1)
ScopesIn(st, d) == Cardinality({k \in (Len(st) - d + 1)..Len(st) : st[k].f = "scope"})
RECURSIVE DropN(_, _)
DropN(s, n) == IF n = 0 THEN s ELSE DropN(Tail(s), n - 1)
\* unwind to the innermost loop; keepLoop = TRUE for continue (the loop frame stays and starts its next pass)
Unwind(keepLoop) ==
  LET d == LoopDist(ctrl, 0) IN
  IF d = -1 THEN Stop("unspec", "break/continue outside a loop", 0)
  ELSE LET popped == ScopesIn(ctrl, d)
           base == SubSeq(ctrl, 1, Len(ctrl) - d)
       IN /\ env' = DropN(env, popped)
          /\ ctrl' = IF keepLoop THEN base ELSE Pop(base)
          /\ UNCHANGED out /\ Run

(* ------------------------------- statements ------------------------------- *)
\* index of the first branch whose condition is truthy; conditions are evaluated in order and the first bad one
\* before a truthy one ends the run (C02: conditions after the chosen branch are not evaluated)
RECURSIVE Choose(_, _, _)
Choose(cs, i, sc) == IF i > Len(cs) THEN [kind |-> "none"]
                     ELSE LET v == Ev(cs[i].c, sc) IN
                          IF Bad(v) THEN [kind |-> "bad", v |-> v, ln |-> cs[i].ln]
                          ELSE IF Truthy(v) THEN [kind |-> "take", i |-> i]
                          ELSE Choose(cs, i + 1, sc)

StepHtml(s) == /\ out' = Append(out, s.s) /\ ctrl' = Advance /\ UNCHANGED env /\ Run
StepPrint(s) == LET v == Ev(s.e, env) IN
                IF Bad(v) THEN StopBad(v, s.ln)
                ELSE IF ~Printable(v) THEN Stop("unspec", "printing order of objects is not specified", 0)
                ELSE /\ out' = Append(out, Show(v)) /\ ctrl' = Advance /\ UNCHANGED env /\ Run
StepAssign(s) == LET v == Ev(s.e, env) IN
                 IF Bad(v) THEN StopBad(v, s.ln)
                 ELSE LET r == SetVar(env, s.n, v) IN
                      IF IsErr(r) THEN Stop("err", r.why, s.ln)
                      ELSE /\ env' = r.sc /\ ctrl' = Advance /\ UNCHANGED out /\ Run
StepIf(s) == LET ch == Choose(s.cs, 1, env) IN
             CASE ch.kind = "bad" -> StopBad(ch.v, ch.ln)
               [] ch.kind = "take" -> /\ ctrl' = Advance \o <<ScopeF, SeqF(s.cs[ch.i].body)>>
                                      /\ env' = <<<<>>>> \o env /\ UNCHANGED out /\ Run
               [] ch.kind = "none" -> IF HasElse(s)
                                      THEN /\ ctrl' = Advance \o <<ScopeF, SeqF(s.els)>>
                                           /\ env' = <<<<>>>> \o env /\ UNCHANGED out /\ Run
                                      ELSE /\ ctrl' = Advance /\ UNCHANGED <<env, out>> /\ Run
StepEach(s) == LET a == Ev(s.arr, env) IN
               IF Bad(a) THEN StopBad(a, s.ln)
               ELSE IF a.t # "arr" THEN Stop("err", "iterating a non-array", s.ln)        \* C03
               ELSE IF Len(a.es) = 0
                    THEN IF HasElse(s)
                         THEN /\ ctrl' = Advance \o <<ScopeF, SeqF(s.els)>>
                              /\ env' = <<<<>>>> \o env /\ UNCHANGED out /\ Run
                         ELSE /\ ctrl' = Advance /\ UNCHANGED <<env, out>> /\ Run
               ELSE /\ ctrl' = Advance \o <<ScopeF, [f |-> "each", var |-> s.var, elems |-> a.es, i |-> 0,
                                                     body |-> s.body, ln |-> s.ln]>>
                    /\ env' = <<<<>>>> \o env /\ UNCHANGED out /\ Run
\* the loop frame is on top: start the next pass or finish
StepEachNext == LET fr == Top IN
                IF fr.i = Len(fr.elems) THEN /\ ctrl' = Pop(ctrl) /\ UNCHANGED <<env, out>> /\ Run
                ELSE LET r == SetVar(env, fr.var, fr.elems[fr.i + 1]) IN
                     IF IsErr(r) THEN Stop("err", r.why, fr.ln)
                     ELSE /\ env' = SetLoop(r.sc, fr.i + 1, Len(fr.elems))
                          /\ ctrl' = [ctrl EXCEPT ![Len(ctrl)] = [@ EXCEPT !.i = @ + 1]] \o <<SeqF(fr.body)>>
                          /\ UNCHANGED out /\ Run
MaxPasses == 12
\* @for(init; cond; post): init runs in the loop's scope; the @else body runs when cond is false at entry
StepFor(s) ==
  LET sc0 == <<<<>>>> \o env
      iv == IF s.init.k = "noinit" THEN Nil ELSE Ev(s.init.e, sc0) IN
  IF Bad(iv) THEN StopBad(iv, s.ln)
  ELSE LET r == IF s.init.k = "noinit" THEN [t |-> "env", sc |-> sc0] ELSE SetVar(sc0, s.init.n, iv) IN
       IF IsErr(r) THEN Stop("err", r.why, s.ln)
       ELSE LET c == Ev(s.cond, r.sc) IN
            IF Bad(c) THEN StopBad(c, s.ln)
            ELSE IF ~Truthy(c) /\ HasElse(s)
                 THEN /\ ctrl' = Advance \o <<ScopeF, SeqF(s.els)>> /\ env' = r.sc /\ UNCHANGED out /\ Run
                 ELSE /\ ctrl' = Advance \o <<ScopeF, [f |-> "for", cond |-> s.cond, post |-> s.post,
                                                       var |-> IF s.init.k = "noinit" THEN "" ELSE s.init.n,
                                                       body |-> s.body, n |-> 0, ln |-> s.ln, fresh |-> TRUE]>>
                      /\ env' = r.sc /\ UNCHANGED out /\ Run
\* the for frame is on top: (after a pass: apply post, then) test the condition
StepForNext ==
  LET fr == Top
      afterPost == IF fr.fresh \/ fr.post.k = "nopost" THEN [t |-> "env", sc |-> env]
                   ELSE IF fr.post.k = "assign"
                        THEN (IF fr.var # "" THEN Unspec           \* an assignment as post clause next to an init clause: not modelled
                              ELSE LET pv == Ev(fr.post.e, env) IN IF Bad(pv) THEN pv ELSE SetVar(env, fr.post.n, pv))
                   ELSE LET pv == Ev(fr.post, env) IN
                        IF Bad(pv) THEN pv ELSE IF fr.var = "" THEN [t |-> "env", sc |-> env] ELSE SetVar(env, fr.var, pv)
  IN IF afterPost.t # "env" THEN StopBad(afterPost, fr.ln)
     ELSE LET c == Ev(fr.cond, afterPost.sc) IN
          IF Bad(c) THEN StopBad(c, fr.ln)
          ELSE IF ~Truthy(c) THEN /\ ctrl' = Pop(ctrl) /\ env' = afterPost.sc /\ UNCHANGED out /\ Run
          ELSE IF fr.n >= MaxPasses THEN Stop("unspec", "loop longer than the modelled bound", 0)
          ELSE /\ ctrl' = [ctrl EXCEPT ![Len(ctrl)] = [@ EXCEPT !.n = @ + 1, !.fresh = FALSE]] \o <<SeqF(fr.body)>>
               /\ env' = afterPost.sc /\ UNCHANGED out /\ Run
\* C07: every argument is evaluated at the place of use and bound in a fresh scope of the component, the
\* surrounding variables stay visible; the scope vanishes when the component ends
\* An argument whose name is visible at the place of use with a value of another type: C07 asks for the argument to be
\* bound, C04 for a name never to be silently retyped; no property says which gives way, so the outcome is unspecified
\* ("unspec"). The family c07collide overrides this to "shadow" to compute what the page prints when the argument is
\* bound, and accepts exactly: an error, or that output - never a render in which the argument was silently dropped.
CollidePolicy == "unspec"
RECURSIVE BindArgs(_, _, _)
BindArgs(args, callerEnv, scope) ==
  IF args = <<>> THEN [t |-> "env", sc |-> <<scope>> \o callerEnv]
  ELSE LET v == Ev(args[1].ex, callerEnv) IN
       IF Bad(v) THEN v
       ELSE IF args[1].key = "loop" THEN Err("loop is reserved")      \* C04: the name loop can never be assigned, by no binder
       ELSE LET old == Lookup(callerEnv, args[1].key) IN
            IF ~IsErr(old) /\ old.t # v.t /\ CollidePolicy # "shadow" THEN Unspec
            ELSE BindArgs(Tail(args), callerEnv, BindIn(scope, args[1].key, v))
\* with two or more failing arguments the reported one is not fixed (C14 only asks for determinism)
ArgsFail(args, sc) == Cardinality({i \in 1..Len(args) : Bad(Ev(args[i].ex, sc))})
StepXComp(s) == IF ArgsFail(s.args, env) > 1 THEN Stop("err", "component arguments", 0)
                ELSE LET r == BindArgs(s.args, env, <<>>) IN
                IF r.t # "env" THEN StopBad(r, s.ln)
                ELSE /\ ctrl' = Advance \o <<ScopeF, SeqF(s.body)>> /\ env' = r.sc /\ UNCHANGED out /\ Run
StepInline(body) == /\ ctrl' = Advance \o <<SeqF(body)>> /\ UNCHANGED <<env, out>> /\ Run
StepSkip == /\ ctrl' = Advance /\ UNCHANGED <<env, out>> /\ Run

StepCondJump(s, keepLoop) ==
  LET v == Ev(s.c, env) IN
  IF Bad(v) THEN StopBad(v, s.ln)
  ELSE IF Truthy(v) THEN Unwind(keepLoop)
  ELSE /\ ctrl' = Advance /\ UNCHANGED <<env, out>> /\ Run

Step ==
  /\ status = "run"
  /\ IF ctrl = <<>> THEN Stop("done", "", 0)
     ELSE CASE Top.f = "scope" -> /\ ctrl' = Pop(ctrl) /\ env' = Tail(env) /\ UNCHANGED out /\ Run
            [] Top.f = "each" -> StepEachNext
            [] Top.f = "for" -> StepForNext
            [] Top.f = "seq" ->
                 IF Top.i > Len(Top.ss) THEN /\ ctrl' = Pop(ctrl) /\ UNCHANGED <<env, out>> /\ Run
                 ELSE LET s == Top.ss[Top.i] IN
                      CASE s.k = "html" -> StepHtml(s)
                        [] s.k = "print" -> StepPrint(s)
                        [] s.k = "assign" -> StepAssign(s)
                        [] s.k = "if" -> StepIf(s)
                        [] s.k = "each" -> StepEach(s)
                        [] s.k = "for" -> StepFor(s)
                        [] s.k = "break" -> Unwind(FALSE)
                        [] s.k = "continue" -> Unwind(TRUE)
                        [] s.k = "breakif" -> StepCondJump(s, FALSE)
                        [] s.k = "continueif" -> StepCondJump(s, TRUE)
                        [] s.k = "xreserveb" -> StepInline(s.body)
                        [] s.k = "xreservee" -> StepPrint(s)
                        [] s.k = "xcomp" -> StepXComp(s)
                        [] s.k = "xslot" -> StepInline(s.body)
                        [] s.k \in {"reserve", "insert", "slot"} -> StepSkip
                        [] s.k = "comp" -> Stop("unspec", "component that was never linked", 0)
                        [] s.k = "use" -> Stop("unspec", "a @use inside a block: what it means for a page is not specified", 0)

\* the root scope is built from the data map (object.EnvFromMap): 'loop' cannot be supplied as data (C04)
RECURSIVE RootScope(_, _)
RootScope(bs, acc) == IF bs = <<>> THEN [t |-> "env", sc |-> acc]
                      ELSE LET r == SetVar(acc, bs[1].n, bs[1].v) IN
                           IF IsErr(r) THEN r ELSE RootScope(Tail(bs), r.sc)
EvalInit(p, data) ==
  LET r == RootScope(data, <<<<>>>>) IN
  /\ prog = p /\ out = <<>> /\ eline = 0
  /\ IF IsErr(r) THEN /\ ctrl = <<>> /\ env = <<<<>>>> /\ status = "err" /\ why = r.why
     ELSE /\ ctrl = <<SeqF(p)>> /\ env = r.sc /\ status = "run" /\ why = ""

RECURSIVE Concat(_)
Concat(chunks) == IF chunks = <<>> THEN "" ELSE chunks[1] \o Concat(Tail(chunks))
Output == Concat(out)

(* ------------------------------- invariants ------------------------------- *)
Scopes == Cardinality({k \in 1..Len(ctrl) : ctrl[k].f = "scope"})
\* C04: the scope chain is exactly the root scope plus one scope per open construct
ScopeBalance == status = "run" => Len(env) = 1 + Scopes
\* C04: a name that is visible in several scopes of the chain has one type in all of them
Names(sc) == UNION {{sc[i][j].n : j \in 1..Len(sc[i])} : i \in 1..Len(sc)}
TypesOf(sc, n) == UNION {{sc[i][j].v.t : j \in {jj \in 1..Len(sc[i]) : sc[i][jj].n = n}} : i \in 1..Len(sc)}
TypeStable == \A n \in Names(env) : Cardinality(TypesOf(env, n)) = 1
\* C04: 'loop' is only ever bound to a loop object, and never in the root scope (it cannot be supplied as data)
LoopReserved == \A i \in 1..Len(env) : \A j \in 1..Len(env[i]) :
                   env[i][j].n = "loop" => (env[i][j].v.t = "obj" /\ i < Len(env))
\* C03: inside pass i of n the innermost @each scope holds loop = {index: i-1, iter: i, first: i=1, last: i=n}
EachFrames == {k \in 1..Len(ctrl) : ctrl[k].f = "each"}
ScopeOfFrame(k) == \* the scope marker right below loop frame k is the loop's scope; count markers above it
  LET above == Cardinality({j \in (k + 1)..Len(ctrl) : ctrl[j].f = "scope"}) IN above + 1
LoopMeta == status = "run" =>
              \A k \in EachFrames : ctrl[k].i >= 1 =>
                 LET sc == env[ScopeOfFrame(k)] IN LookupIn(sc, "loop") = LoopObj(ctrl[k].i, Len(ctrl[k].elems))
\* output is only ever appended to (C03: what preceded a @break in the current pass has been emitted)
OutMonotone == [][IsPrefix(out, out')]_evars
\* every run ends: done, err, or outside the specified domain
Terminated == status # "run"
=============================================================================
