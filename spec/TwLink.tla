-------------------------------- MODULE TwLink --------------------------------
(***************************************************************************)
(* Machine K: linking pages to layouts and components (C06, C07) and the   *)
(* loader (C14, C18).                                                      *)
(*                                                                         *)
(* A template file is [kind |-> "tpl", use, body] (use = NoUse or a name   *)
(* reference) or [kind |-> "bad", src] for a file that does not parse.     *)
(* A name reference is [alias, n]: written "~n" when alias, resolved       *)
(* against "layouts/" or "components/".                                    *)
(* A tree is a function from template names (path relative to the         *)
(* template directory, without extension) to files.                        *)
(***************************************************************************)
EXTENDS TwUnparse

Tpl(use, body) == [kind |-> "tpl", use |-> use, body |-> body]
BadFile(src) == [kind |-> "bad", src |-> src]

LErr(w, file, what) == [ok |-> FALSE, why |-> w, file |-> file, what |-> what]   \* file: the faulty file; what: name to mention

(* ---------------- collecting inserts / reserves / components ---------------- *)
RECURSIVE Collect(_, _)
\* all statements of kind k in ss, also inside blocks, in source order
Collect(ss, k) ==
  IF ss = <<>> THEN <<>>
  ELSE LET s == ss[1]
           here == IF s.k = k THEN <<s>> ELSE <<>>
           inner == CASE s.k = "if" -> LET RECURSIVE CBr(_) CBr(i) == IF i > Len(s.cs) THEN <<>> ELSE Collect(s.cs[i].body, k) \o CBr(i + 1)
                                       IN CBr(1) \o (IF HasElse(s) THEN Collect(s.els, k) ELSE <<>>)
                     [] s.k \in {"each", "for"} -> Collect(s.body, k) \o (IF HasElse(s) THEN Collect(s.els, k) ELSE <<>>)
                     [] s.k = "insert" -> IF s.form = "block" THEN Collect(s.body, k) ELSE <<>>
                     [] s.k = "comp" -> LET RECURSIVE CSl(_) CSl(i) == IF i > Len(s.slots) THEN <<>> ELSE Collect(s.slots[i].body, k) \o CSl(i + 1) IN CSl(1)
                     [] OTHER -> <<>>
       IN here \o inner \o Collect(Tail(ss), k)
NameSet(stmts) == {stmts[i].name : i \in 1..Len(stmts)}
HasDup(stmts) == \E i, j \in 1..Len(stmts) : i < j /\ stmts[i].name = stmts[j].name
FindByName(stmts, n) == stmts[CHOOSE i \in 1..Len(stmts) : stmts[i].name = n]

(* ------------------------------ components (C07) ------------------------------ *)
\* replace the top-level slot placeholders of a component body by the bodies the caller passed
SubstSlots(body, slots) ==
  [i \in 1..Len(body) |->
     IF body[i].k = "slot"
     THEN IF \E j \in 1..Len(slots) : slots[j].name = body[i].name
          THEN XSlot(FindByName(slots, body[i].name).body, body[i].ln)
          ELSE XSlot(<<>>, body[i].ln)
     ELSE body[i]]
TopSlots(body) == {body[i].name : i \in {j \in 1..Len(body) : body[j].k = "slot"}}
\* link one use: every use gets ITS OWN copy of the component's program (C07: uses are independent)
LinkComp(c, tree, pageName) ==
  LET cname == Resolve(c.name, "components") IN
  IF cname \notin DOMAIN tree THEN LErr("component file is missing", pageName, cname)
  ELSE IF tree[cname].kind = "bad" THEN LErr("component file does not parse", cname, cname)
  ELSE IF HasDup(c.slots) THEN LErr("slot passed twice", pageName, cname)
  ELSE IF \E i \in 1..Len(c.slots) : c.slots[i].name \notin TopSlots(tree[cname].body) THEN LErr("slot not declared by the component", pageName, cname)
  ELSE [ok |-> TRUE, s |-> XComp(c.args, SubstSlots(tree[cname].body, c.slots), c.ln)]

RECURSIVE LinkStmts(_, _, _)
RECURSIVE LinkBranches(_, _, _, _)
RECURSIVE LinkSlots(_, _, _, _)
LinkSlots(sl, i, tree, pn) ==
  IF i > Len(sl) THEN [ok |-> TRUE, sl |-> <<>>]
  ELSE LET b == LinkStmts(sl[i].body, tree, pn) IN
       IF ~b.ok THEN b
       ELSE LET rest == LinkSlots(sl, i + 1, tree, pn) IN
            IF ~rest.ok THEN rest ELSE [ok |-> TRUE, sl |-> <<[sl[i] EXCEPT !.body = b.ss]>> \o rest.sl]
\* link every component use in ss (also inside blocks, insert bodies and slot bodies)
LinkBranches(cs, i, tree, pn) ==
  IF i > Len(cs) THEN [ok |-> TRUE, cs |-> <<>>]
  ELSE LET b == LinkStmts(cs[i].body, tree, pn) IN
       IF ~b.ok THEN b
       ELSE LET rest == LinkBranches(cs, i + 1, tree, pn) IN
            IF ~rest.ok THEN rest ELSE [ok |-> TRUE, cs |-> <<[cs[i] EXCEPT !.body = b.ss]>> \o rest.cs]
LinkStmts(ss, tree, pn) ==
  IF ss = <<>> THEN [ok |-> TRUE, ss |-> <<>>]
  ELSE LET s == ss[1]
           one == CASE s.k = "comp" -> LET sl == LinkSlots(s.slots, 1, tree, pn) IN
                                       IF ~sl.ok THEN sl ELSE LinkComp([s EXCEPT !.slots = sl.sl], tree, pn)
                    [] s.k = "if" -> LET bs == LinkBranches(s.cs, 1, tree, pn) IN
                                     IF ~bs.ok THEN bs
                                     ELSE IF HasElse(s)
                                          THEN LET e == LinkStmts(s.els, tree, pn) IN
                                               IF ~e.ok THEN e ELSE [ok |-> TRUE, s |-> [s EXCEPT !.cs = bs.cs, !.els = e.ss]]
                                          ELSE [ok |-> TRUE, s |-> [s EXCEPT !.cs = bs.cs]]
                    [] s.k \in {"each", "for"} ->
                         LET b == LinkStmts(s.body, tree, pn) IN
                         IF ~b.ok THEN b
                         ELSE IF HasElse(s)
                              THEN LET e == LinkStmts(s.els, tree, pn) IN
                                   IF ~e.ok THEN e ELSE [ok |-> TRUE, s |-> [s EXCEPT !.body = b.ss, !.els = e.ss]]
                              ELSE [ok |-> TRUE, s |-> [s EXCEPT !.body = b.ss]]
                    [] s.k = "insert" /\ s.form = "block" ->
                         LET b == LinkStmts(s.body, tree, pn) IN IF ~b.ok THEN b ELSE [ok |-> TRUE, s |-> [s EXCEPT !.body = b.ss]]
                    [] OTHER -> [ok |-> TRUE, s |-> s]
       IN IF ~one.ok THEN one
          ELSE LET rest == LinkStmts(Tail(ss), tree, pn) IN
               IF ~rest.ok THEN rest ELSE [ok |-> TRUE, ss |-> <<one.s>> \o rest.ss]

(* -------------------------------- layouts (C06) -------------------------------- *)
RECURSIVE Fill(_, _)
RECURSIVE FillBranches(_, _, _)
FillBranches(cs, i, ins) == IF i > Len(cs) THEN <<>> ELSE <<[cs[i] EXCEPT !.body = Fill(cs[i].body, ins)]>> \o FillBranches(cs, i + 1, ins)
\* the layout with each @reserve(n) replaced by the page's @insert(n) content, or by nothing
Fill(ss, ins) ==
  IF ss = <<>> THEN <<>>
  ELSE LET s == ss[1]
           t == CASE s.k = "reserve" ->
                       (IF s.name \in NameSet(ins)
                        THEN LET i == FindByName(ins, s.name) IN
                             IF i.form = "block" THEN XReserveB(i.body, i.ln) ELSE XReserveE(i.e, i.ln)
                        ELSE XReserveB(<<>>, s.ln))
                  [] s.k = "if" -> IF HasElse(s) THEN [s EXCEPT !.cs = FillBranches(s.cs, 1, ins), !.els = Fill(s.els, ins)]
                                   ELSE [s EXCEPT !.cs = FillBranches(s.cs, 1, ins)]
                  [] s.k \in {"each", "for"} -> IF HasElse(s) THEN [s EXCEPT !.body = Fill(s.body, ins), !.els = Fill(s.els, ins)]
                                                ELSE [s EXCEPT !.body = Fill(s.body, ins)]
                  [] OTHER -> s
       IN <<t>> \o Fill(Tail(ss), ins)

\* the program registered for page `name`, or a load error (parser_utils.go parsePrograms for one file)
LinkFile(tree, name) ==
  LET f == tree[name] IN
  IF f.kind = "bad" THEN LErr("file does not parse", name, name)
  ELSE LET ins == Collect(f.body, "insert") IN
       IF HasDup(ins) THEN LErr("two inserts with one name", name, name)
       ELSE LET linked == LinkStmts(f.body, tree, name) IN      \* components of the page (also inside its inserts)
            IF f.use = NoUse
            THEN IF ~linked.ok THEN linked ELSE [ok |-> TRUE, prog |-> linked.ss, layout |-> Collect(f.body, "reserve") # <<>>, useInLayout |-> FALSE]
            ELSE LET lname == Resolve(f.use, "layouts") IN
                 IF lname \notin DOMAIN tree THEN LErr("layout file is missing", name, lname)
                 ELSE IF tree[lname].kind = "bad" THEN LErr("layout does not parse", lname, lname)
                 ELSE LET lay == tree[lname]
                          res == Collect(lay.body, "reserve") IN
                      IF \E i \in 1..Len(ins) : ins[i].name \notin NameSet(res) THEN LErr("insert names no reserve of the layout", name, name)
                      ELSE IF ~linked.ok THEN linked
                      ELSE [ok |-> TRUE, prog |-> Fill(lay.body, Collect(linked.ss, "insert")), layout |-> Collect(f.body, "reserve") # <<>>,
                            \* a layout "uses a layout" when a @use is written anywhere in it, evaluated or not
                            useInLayout |-> lay.use # NoUse \/ Collect(lay.body, "use") # <<>>]

=============================================================================
