------------------------------- MODULE MC_Tree -------------------------------
(***************************************************************************)
(* C18: which files of a template directory are registered and under what  *)
(* names, for every directory spelling and extension; clean failure when   *)
(* any single file is missing / truncated / garbage / a dangling symlink / *)
(* a directory; EvaluateFile equals EvaluateString of the content.         *)
(* C14: trees and programs whose outcome could depend on map order.        *)
(* Strings cannot be taken apart in TLA+, so a file name is a record       *)
(* [dirs, stem, ext, suffix] and a file's content a sequence of chunks.    *)
(***************************************************************************)
EXTENDS Integers, Sequences, FiniteSets, TLC, Json, SequencesExt

CONSTANTS Family, Emit_
VARIABLES cas, rec
vars == <<cas, rec>>

RECURSIVE Cat(_)
Cat(cs) == IF cs = <<>> THEN "" ELSE cs[1] \o Cat(Tail(cs))
RECURSIVE JoinSlash(_)
JoinSlash(ds) == IF ds = <<>> THEN "" ELSE ds[1] \o "/" \o JoinSlash(Tail(ds))

(* ------------------------------- C18 names ------------------------------- *)
\* entries relative to the template directory; X stands for the configured extension
Ent(dirs, stem, ext, suffix) == [dirs |-> dirs, stem |-> stem, ext |-> ext, suffix |-> suffix]
Entries == {Ent(<<>>, "a", "X", ""), Ent(<<"sub">>, "a", "X", ""), Ent(<<"sub", "deep">>, "c", "X", ""),
            Ent(<<>>, "b", "X", ".bak"), Ent(<<"xX">>, "c", ".txt", ""), Ent(<<>>, "e", "X", "x"), Ent(<<>>, "README", ".md", ""),
            Ent(<<"xX">>, "d", "X", ""), Ent(<<>>, "f.g", "X", ""),
            Ent(<<>>, "gX", "X", "")}                     \* "g" + extension + extension: the NAME ends in the extension
Sub(s, ext) == IF s = "X" THEN ext ELSE IF s = "xX" THEN "x" \o ext ELSE s
Stem(e, ext) == IF e.stem = "gX" THEN "g" \o ext ELSE e.stem
RelPath(e, ext) == JoinSlash([i \in 1..Len(e.dirs) |-> Sub(e.dirs[i], ext)]) \o Stem(e, ext) \o Sub(e.ext, ext) \o e.suffix
\* C18: exactly the files whose names END in the extension, under their relative path without the extension
IsTemplate(e) == e.ext = "X" /\ e.suffix = ""
NameOf(e, ext) == JoinSlash([i \in 1..Len(e.dirs) |-> Sub(e.dirs[i], ext)]) \o Stem(e, ext)
Spellings == {[cfg |-> "d", real |-> "d"], [cfg |-> "d/", real |-> "d"], [cfg |-> "./d", real |-> "d"],
              [cfg |-> "d/../d", real |-> "d"], [cfg |-> "p/d", real |-> "p/d"], [cfg |-> "d/sub", real |-> "d/sub"], [cfg |-> "/d/", real |-> "d"],
              \* dots that belong to the name: a hidden directory, a trailing dot, a dotted last segment
              [cfg |-> ".d", real |-> ".d"], [cfg |-> "d.", real |-> "d."], [cfg |-> "p/.h", real |-> "p/.h"], [cfg |-> "./.d/", real |-> ".d"]}
Exts == {".tw", ".tw.html", ".html", "tw"}        \* (the extension is what the configuration says, with or without a dot)
NameCases(sets, spells, exts) ==
  {[files |-> SetToSeq({[path |-> sp.real \o "/" \o RelPath(e, x), src |-> "x" \o e.stem, kind |-> ""] : e \in es}
                       \cup {[path |-> "d/outside.txt", src |-> "o", kind |-> ""], [path |-> "outside" \o x, src |-> "o", kind |-> ""]}),
    cfg |-> [dir |-> sp.cfg, ext |-> x],
    load |-> [ok |-> TRUE, names |-> SetToSeq({NameOf(e, x) : e \in {f \in es : IsTemplate(f)}}
                                              \cup (IF sp.cfg = "d/sub" THEN {} ELSE {}))],
    ops |-> SetToSeq({[op |-> "String", name |-> NameOf(e, x), data |-> <<>>,
                       expect |-> IF IsTemplate(e) THEN [kind |-> "out", out |-> "x" \o e.stem] ELSE [kind |-> "err", why |-> "not a template"]] : e \in es}
                     \cup {[op |-> "String", name |-> "ghost", data |-> <<>>, expect |-> [kind |-> "err", why |-> "unknown name"]]}
                     \* a template has ONE name - its relative path without the extension: with the extension, or with a slash in
                     \* front, it is an unknown name
                     \cup {[op |-> "String", name |-> NameOf(e, x) \o x, data |-> <<>>, expect |-> [kind |-> "err", why |-> "unknown name"]] :
                             e \in {f \in es : IsTemplate(f) /\ \A g \in es : IsTemplate(g) => NameOf(g, x) # NameOf(f, x) \o x}}
                     \cup {[op |-> "String", name |-> "/" \o NameOf(e, x), data |-> <<>>, expect |-> [kind |-> "err", why |-> "unknown name"]] : e \in {f \in es : IsTemplate(f)}}),
    tags |-> <<"c18names", sp.cfg, x>>] : es \in sets, sp \in spells, x \in exts}
Singles == {{e} : e \in Entries} \cup {Entries} \cup {{e \in Entries : IsTemplate(e)}} \cup {{e \in Entries : ~IsTemplate(e)}}
Pairs == {{e, f} : e \in Entries, f \in Entries}

(* ------------------------------- C18 faults ------------------------------- *)
\* a valid tree: page + layout + component, contents as chunk sequences
PageCh == <<"@use(", "\"~main\"", ")", "junk", "@insert(", "\"title\"", ", ", "\"T\"", ")", "@insert(", "\"content\"", ")", "<p>", "{{ ", "who", " }}",
            "@component(", "\"~card\"", ", ", "{", "n", ": ", "1", "}", ")", "@slot", "S", "@end", "@end", "</p>", "@end">>
LayCh == <<"<h>", "@reserve(", "\"title\"", ")", "</h>", "@if(", "true", ")", "@reserve(", "\"content\"", ")", "@end", "!">>
CompCh == <<"[", "{{ ", "n", " }}", "@slot", "@if(", "n", " == ", "1", ")", "one", "@else", "other", "@end", "]">>
OtherCh == <<"plain ", "{{ ", "1", " + ", "2", " }}", "@each(", "x", " in ", "[", "1", ",", "2", "]", ")", "{{ ", "x", " }}", "@end">>
GoodFiles == [n \in {"home", "layouts/main", "components/card", "about"} |->
                CASE n = "home" -> PageCh [] n = "layouts/main" -> LayCh [] n = "components/card" -> CompCh [] n = "about" -> OtherCh]
GoodNames == {"home", "components/card", "about"}
GoodOut == "<h>T</h><p>Bo[1Sone]</p>!"
Refs(n) == CASE n = "layouts/main" -> {"home", "layouts/main", "main"} [] n = "components/card" -> {"home", "components/card", "card"} [] OTHER -> {n}
FaultKinds == {"deleted", "garbage", "symlink-dangling", "dir", "empty"}
FileRec(n, src, kind) == [name |-> n, src |-> src, kind |-> kind]
Others(n) == {FileRec(m, Cat(GoodFiles[m]), "") : m \in DOMAIN GoodFiles \ {n}}
HomeOp(exp) == <<[op |-> "String", name |-> "home", data |-> <<[k |-> "who", v |-> [t |-> "str", v |-> "Bo"]]>>, expect |-> exp]>>
FaultCases ==
  {[files |-> SetToSeq(Others(n) \cup (CASE k = "deleted" -> {}
                                         [] k = "garbage" -> {FileRec(n, "@if(true){{ ~ }}@each(", "")}
                                         [] k = "empty" -> {FileRec(n, "", "")}
                                         [] OTHER -> {FileRec(n, "", k)})),
    cfg |-> [dir |-> "t", ext |-> ".tw"],
    load |-> IF (k \in {"deleted", "dir"} /\ n \in {"home", "about"}) \/ (k = "empty" /\ n \in {"about"})
             THEN [ok |-> TRUE, names |-> SetToSeq((GoodNames \ {n}) \cup (IF k = "empty" THEN {n} ELSE {}))]
             ELSE IF k = "empty" /\ n = "home" THEN [ok |-> TRUE, names |-> SetToSeq(GoodNames)]
             ELSE [ok |-> FALSE, mentions |-> SetToSeq(Refs(n))],
    ops |-> IF n \in {"about"} /\ k # "garbage" /\ k # "symlink-dangling" THEN HomeOp([kind |-> "out", out |-> GoodOut]) ELSE <<>>,
    tags |-> <<"c18faults", k, n>>] : n \in DOMAIN GoodFiles, k \in FaultKinds}
\* truncation of each file at every chunk boundary: a clean load or an error that identifies the file; never a crash
\* prefixes (numbers of chunks) at which a file is a complete template again; at every other length it ends inside {{ }},
\* inside directive arguments or inside an open block, and by C08 / C18 loading must fail naming the file
ClosedAt(n) == CASE n = "home" -> {0, 3, 4, 9, 31} [] n = "layouts/main" -> {0, 1, 4, 5, 12, 13}
                 [] n = "components/card" -> {0, 1, 4, 5, 14, 15} [] n = "about" -> {0, 1, 6, 19}
TruncCases ==
  UNION {{[files |-> SetToSeq(Others(n) \cup {FileRec(n, Cat(SubSeq(GoodFiles[n], 1, k)), "")}),
           cfg |-> [dir |-> "t", ext |-> ".tw"],
           load |-> IF k \in ClosedAt(n) THEN [any |-> TRUE, mentions |-> SetToSeq(Refs(n))] ELSE [ok |-> FALSE, mentions |-> SetToSeq(Refs(n))],
           ops |-> <<>>, tags |-> <<"c18trunc", n, IF k \in ClosedAt(n) THEN "complete" ELSE "cut-open">>] : k \in 0..Len(GoodFiles[n])} : n \in DOMAIN GoodFiles}
\* a file whose content has CR LF line ends, a lone CR, NUL, a byte order mark and non-ASCII text: evaluating it by path
\* equals evaluating exactly these bytes as a string
OddFile == FileRec("odd", "a$r$\nb$r$c$e$ {{ 1 }}$r$\n$r$\n{{ \"x$r$\ny\".len() }}|$z$|$u$", "")
BomFile == FileRec("bom", "$b$first {{ 2 }}$r$\n", "")
\* files that fail: at run time (they still load), and - outside the set of templates - at parse time; the error of
\* EvaluateFile is the error of EvaluateString on the content
RtFail == FileRec("rtfail", "x\n{{ 1 / 0 }}", "")
OutsideFiles == {[path |-> "t/cut.txt", src |-> "a\n@if(true)\nnever closed", kind |-> ""], [path |-> "t/illegal.txt", src |-> "a\n\n{{ 1 ~ 2 }}", kind |-> ""],
                 [path |-> "t/undef.txt", src |-> "{{ zz }}", kind |-> ""]}
BaseCase == {[files |-> SetToSeq({FileRec(m, Cat(GoodFiles[m]), "") : m \in DOMAIN GoodFiles} \cup {OddFile, BomFile, RtFail, FileRec("aaa", "first:@component(\"~card\", {n: 2})", ""),
                                 FileRec("layouts/plainlay", "a layout that reserves nothing", ""), FileRec("usesplain", "@use(\"~plainlay\")ignored", ""),
                                 \* layouts whose reserves all stand inside blocks: files that declare reserves are layouts wherever the reserve stands
                                 FileRec("layouts/inif", "@if(true)<x>@reserve(\"content\")</x>@end", ""), FileRec("layouts/ineach", "@each(q in [1, 2])[@reserve(\"content\")]@end", ""),
                                 FileRec("layouts/inelse", "@if(false)no@else@for(i = 0; i < 1; i++)<e>@reserve(\"content\")</e>@end@end", ""),
                                 FileRec("viaif", "@use(\"~inif\")@insert(\"content\", \"C\")", ""), FileRec("viaeach", "@use(\"~ineach\")@insert(\"content\")c@end", ""),
                                 FileRec("viaelse", "@use(\"~inelse\")@insert(\"content\", 7)", "")} \cup OutsideFiles), cfg |-> [dir |-> "t", ext |-> ".tw"],
              load |-> [ok |-> TRUE, names |-> SetToSeq(GoodNames \cup {"odd", "bom", "rtfail", "aaa", "layouts/plainlay", "usesplain", "viaif", "viaeach", "viaelse"})],
              ops |-> HomeOp([kind |-> "out", out |-> GoodOut]) \o
                      <<[op |-> "EvalFile", name |-> "odd", data |-> <<>>, expect |-> [kind |-> "any"]],
                        [op |-> "EvalFile", name |-> "bom", data |-> <<>>, expect |-> [kind |-> "any"]],
                        \* a page that sorts before the component it uses; the component stays a template of its own
                        [op |-> "String", name |-> "aaa", data |-> <<>>, expect |-> [kind |-> "out", out |-> "first:[2other]"]],
                        [op |-> "String", name |-> "layouts/plainlay", data |-> <<>>, expect |-> [kind |-> "out", out |-> "a layout that reserves nothing"]],
                        [op |-> "String", name |-> "usesplain", data |-> <<>>, expect |-> [kind |-> "out", out |-> "a layout that reserves nothing"]],
                        [op |-> "String", name |-> "components/card", data |-> <<[k |-> "n", v |-> [t |-> "int", b |-> "z", o |-> 1]]>>, expect |-> [kind |-> "out", out |-> "[1one]"]],
                        [op |-> "EvalFile", name |-> "rtfail", data |-> <<>>, expect |-> [kind |-> "any"]],
                        [op |-> "EvalFile", name |-> "/t/cut.txt", data |-> <<>>, expect |-> [kind |-> "any"]],
                        [op |-> "EvalFile", name |-> "/t/illegal.txt", data |-> <<>>, expect |-> [kind |-> "any"]],
                        [op |-> "EvalFile", name |-> "/t/undef.txt", data |-> <<>>, expect |-> [kind |-> "any"]]>> \o
                      <<[op |-> "String", name |-> "layouts/main", data |-> <<>>, expect |-> [kind |-> "err", why |-> "layouts are not renderable"]],
                        [op |-> "String", name |-> "/about", data |-> <<>>, expect |-> [kind |-> "err", why |-> "unknown name"]],
                        [op |-> "String", name |-> "about.tw", data |-> <<>>, expect |-> [kind |-> "err", why |-> "unknown name"]],
                        [op |-> "String", name |-> "./about", data |-> <<>>, expect |-> [kind |-> "err", why |-> "unknown name"]],
                        [op |-> "String", name |-> "components/../about", data |-> <<>>, expect |-> [kind |-> "err", why |-> "unknown name"]],
                        [op |-> "String", name |-> "layouts/inif", data |-> <<>>, expect |-> [kind |-> "err", why |-> "layouts are not renderable"]],
                        [op |-> "String", name |-> "layouts/ineach", data |-> <<>>, expect |-> [kind |-> "err", why |-> "layouts are not renderable"]],
                        [op |-> "String", name |-> "layouts/inelse", data |-> <<>>, expect |-> [kind |-> "err", why |-> "layouts are not renderable"]],
                        [op |-> "String", name |-> "viaif", data |-> <<>>, expect |-> [kind |-> "out", out |-> "<x>C</x>"]],
                        [op |-> "String", name |-> "viaeach", data |-> <<>>, expect |-> [kind |-> "out", out |-> "[c][c]"]],
                        [op |-> "String", name |-> "viaelse", data |-> <<>>, expect |-> [kind |-> "out", out |-> "<e>7</e>"]],
                        [op |-> "String", name |-> "about", data |-> <<>>, expect |-> [kind |-> "out", out |-> "plain 312"]],
                        [op |-> "EvalFile", name |-> "about", data |-> <<>>, expect |-> [kind |-> "any"]],
                        [op |-> "EvalFile", name |-> "components/card", data |-> <<[k |-> "n", v |-> [t |-> "int", b |-> "z", o |-> 1]]>>, expect |-> [kind |-> "any"]],
                        [op |-> "EvalFile", name |-> "ghost", data |-> <<>>, expect |-> [kind |-> "any"]]>>,
              tags |-> <<"c18base">>]}

(* ------------------------------- C13 in trees ------------------------------- *)
\* a load-time fault is reported with the absolute path of the file that contains the construct and its line; a
\* run-time fault in the page itself with the page's path and line.  Files are line sequences; the fault sits on line fl.
RECURSIVE Lines(_)
Lines(ls) == IF ls = <<>> THEN "" ELSE ls[1] \o (IF Len(ls) = 1 THEN "" ELSE "\n" \o Lines(Tail(ls)))
Pad(n) == [i \in 1..n |-> IF i % 2 = 0 THEN "{{-- c" \o ToString(i) \o " --}}" ELSE "text " \o ToString(i)]
\* the same number of lines that are blank or hold white space only: nothing a loader may trim
Blank(n) == [i \in 1..n |-> IF i % 2 = 1 THEN "" ELSE "  \t"]
PadOr(n, blank) == IF blank THEN Blank(n) ELSE Pad(n)
LayLines(n, fault) == Pad(n) \o <<fault>> \o <<"<h>@reserve(\"title\")</h>", "@reserve(\"content\")">>
PageLines(n, fault) == <<"@use(\"~main\")">> \o Pad(n) \o <<"@insert(\"title\", \"T\")", "@insert(\"content\")", "body", fault, "@end">>
CompLines(n, fault) == Pad(n) \o <<fault, "[{{ n }}]">>
ParseFaults == {"{{ 1 + }}", "{{ 1 ~ 2 }}", "@each(x on y)z@end", "{{ (1 }}"}   \* (an unterminated string or comment is one token up to the end of the file: its line is the last line)
RunFaults == {"{{ zz }}", "{{ 1 / 0 }}", "{{ \"s\".nope() }}", "{{ 1 + \"a\" }}"}
GoodLay == <<"<h>@reserve(\"title\")</h>", "@reserve(\"content\")">>
GoodComp == <<"[{{ n }}]">>
PathCase(files, load, ops, tag) == [files |-> files, cfg |-> [dir |-> "t", ext |-> ".tw"], load |-> load, ops |-> ops, tags |-> <<"c13tree", tag>>]
TreeFaults ==
     {PathCase(<<FileRec("layouts/main", Lines(LayLines(n, f)), ""), FileRec("home", Lines(PageLines(1, "ok")), "")>>,
               [ok |-> FALSE, mentions |-> <<"layouts/main">>, file |-> "layouts/main", line |-> n + 1], <<>>, "layout-parse") : n \in 0..3, f \in ParseFaults}
\cup {PathCase(<<FileRec("layouts/main", Lines(GoodLay), ""), FileRec("home", Lines(PageLines(n, f)), "")>>,
               [ok |-> FALSE, mentions |-> <<"home">>, file |-> "home", line |-> n + 5], <<>>, "page-parse") : n \in 0..3, f \in ParseFaults}
\cup {PathCase(<<FileRec("components/c", Lines(CompLines(n, f)), ""), FileRec("home", "x\n@component(\"~c\", {n: 1})", "")>>,
               [ok |-> FALSE, mentions |-> <<"components/c">>, file |-> "components/c", line |-> n + 1], <<>>, "component-parse") : n \in 0..3, f \in ParseFaults}
\* the same with pages whose names sort before and after the component's: the fault is in the component's file whichever
\* file is read first
\cup {PathCase(<<FileRec("components/c", Lines(CompLines(n, f)), ""), FileRec(pg, "x\n@component(\"~c\", {n: 1})", ""), FileRec("zz", "plain", "")>>,
               [ok |-> FALSE, mentions |-> <<"components/c">>, file |-> "components/c", line |-> n + 1], <<>>, "component-parse") :
        n \in {0, 2}, f \in ParseFaults, pg \in {"about", "a/first", "index", "zebra"}}
\cup {PathCase(<<FileRec("layouts/main", Lines(LayLines(n, f)), ""), FileRec(pg, Lines(PageLines(1, "ok")), "")>>,
               [ok |-> FALSE, mentions |-> <<"layouts/main">>, file |-> "layouts/main", line |-> n + 1], <<>>, "layout-parse") :
        n \in {0, 2}, f \in ParseFaults, pg \in {"about", "zebra"}}
\cup {PathCase(<<FileRec("layouts/main", Lines(GoodLay), ""), FileRec("home", Lines(PageLines(n, f)), "")>>,
               [ok |-> TRUE, names |-> <<"home">>],
               <<[op |-> "String", name |-> "home", data |-> <<>>, expect |-> [kind |-> "err", why |-> "fault", line |-> n + 5], path |-> "home"]>>, "page-runtime") :
        n \in 0..3, f \in RunFaults}
\cup {PathCase(<<FileRec("layouts/main", Lines(GoodLay), ""), FileRec("home", Lines(<<"@use(\"~main\")">> \o Pad(n) \o <<"@insert(\"nope\", 1)", "@insert(\"title\", 2)">>), "")>>,
               [ok |-> FALSE, mentions |-> <<"home">>, file |-> "home", line |-> n + 2], <<>>, "undefined-insert") : n \in 0..3}
\cup {PathCase(<<FileRec("home", Lines(Pad(n) \o <<"@component(\"~ghost\")">>), "")>>,
               [ok |-> FALSE, mentions |-> <<"home", "components/ghost">>, file |-> "home", line |-> n + 1], <<>>, "unknown-component") : n \in 0..3}

\* files that BEGIN with blank lines, and run-time faults inside a component file (the line is the line in that file; which
\* path is reported for it is not fixed by C13)
BlankFaults ==
     {PathCase(<<FileRec("components/c", Lines(Blank(n) \o <<f, "[{{ n }}]">>), ""), FileRec(pg, "x\n@component(\"~c\", {n: 1})", "")>>,
               [ok |-> FALSE, mentions |-> <<"components/c">>, file |-> "components/c", line |-> n + 1], <<>>, "component-parse") :
        n \in 1..3, f \in ParseFaults, pg \in {"about", "zebra"}}
\cup {PathCase(<<FileRec("layouts/main", Lines(Blank(n) \o <<f>> \o GoodLay), ""), FileRec("home", Lines(PageLines(1, "ok")), "")>>,
               [ok |-> FALSE, mentions |-> <<"layouts/main">>, file |-> "layouts/main", line |-> n + 1], <<>>, "layout-parse") : n \in 1..3, f \in ParseFaults}
\cup {PathCase(<<FileRec("home", Lines(Blank(n) \o <<f>>), "")>>,
               [ok |-> FALSE, mentions |-> <<"home">>, file |-> "home", line |-> n + 1], <<>>, "page-parse") : n \in 1..3, f \in ParseFaults}
\cup {PathCase(<<FileRec("home", Lines(Blank(n) \o <<f>>), "")>>, [ok |-> TRUE, names |-> <<"home">>],
               <<[op |-> "String", name |-> "home", data |-> <<>>, expect |-> [kind |-> "err", why |-> "fault", line |-> n + 1], path |-> "home"]>>, "page-runtime") :
        n \in 1..3, f \in RunFaults}
\cup {PathCase(<<FileRec("components/c", Lines(PadOr(n, bl) \o <<f, "[{{ n }}]">>), ""), FileRec(pg, "x\n@component(\"~c\", {n: 1})", "")>>,
               [ok |-> TRUE, names |-> <<"components/c", pg>>],
               <<[op |-> "String", name |-> pg, data |-> <<>>, expect |-> [kind |-> "err", why |-> "fault", line |-> n + 1], path |-> ""]>>, "component-runtime") :
        n \in 0..3, bl \in BOOLEAN, f \in RunFaults, pg \in {"about", "zebra"}}
\cup {PathCase(<<FileRec("layouts/main", Lines(PadOr(n, bl) \o <<"<h>@reserve(\"title\")</h>", f, "@reserve(\"content\")">>), ""), FileRec("home", Lines(PageLines(1, "ok")), "")>>,
               [ok |-> TRUE, names |-> <<"home">>],
               <<[op |-> "String", name |-> "home", data |-> <<>>, expect |-> [kind |-> "err", why |-> "fault", line |-> n + 2], path |-> ""]>>, "layout-runtime") :
        n \in 0..3, bl \in BOOLEAN, f \in RunFaults}

\* an unknown component whose use does not end on the line of its keyword and name (arguments over several lines, slots): the
\* construct is the name on the keyword's line
UnknownSpread ==
     {PathCase(<<FileRec("home", Lines(Pad(n) \o <<"@component(\"~ghost\", {", "  a: 1,", "  b: 2", "})", "after">>), "")>>,
               [ok |-> FALSE, mentions |-> <<"home", "components/ghost">>, file |-> "home", line |-> n + 1], <<>>, "unknown-component") : n \in 0..3}
\cup {PathCase(<<FileRec("home", Lines(Pad(n) \o <<"@component(\"~ghost\")", "@slot", "s", "@end", "@slot(\"x\")", "t", "@end", "@end", "after">>), "")>>,
               [ok |-> FALSE, mentions |-> <<"home", "components/ghost">>, file |-> "home", line |-> n + 1], <<>>, "unknown-component") : n \in 0..3}

\* faults in the page itself around a component: in a slot body the page passes, in an argument, after the component
CardLines == <<"<c>@slot</c>|@slot(\"foot\")">>
RunCase(home, line, tag) == PathCase(<<FileRec("components/card", Lines(CardLines), ""), FileRec("components/c", Lines(GoodComp), ""), FileRec("home", Lines(home), "")>>,
                                     [ok |-> TRUE, names |-> <<"components/c", "components/card", "home">>],
                                     <<[op |-> "String", name |-> "home", data |-> <<>>, expect |-> [kind |-> "err", why |-> "fault", line |-> line], path |-> "home"]>>, tag)
CompFaults ==
     {RunCase(Pad(n) \o <<"@component(\"~card\")", "@slot", f, "@end", "@end">>, n + 3, "slot-body-runtime") : n \in 0..3, f \in RunFaults}
\cup {RunCase(Pad(n) \o <<"@component(\"~card\")", "@slot(\"foot\")", "a", f, "@end", "@end">>, n + 4, "named-slot-body-runtime") : n \in 0..3, f \in RunFaults}
\cup {RunCase(Pad(n) \o <<"@component(\"~c\", {n: 1})", f>>, n + 2, "after-component-runtime") : n \in 0..3, f \in RunFaults}
\cup {RunCase(Pad(n) \o <<"@component(\"~card\")", "@slot", "s", "@end", "@end", f>>, n + 6, "after-slots-runtime") : n \in 0..3, f \in RunFaults}
\cup {RunCase(Pad(n) \o <<"@component(\"~c\", {n: " \o a \o "})">>, n + 1, "argument-runtime") : n \in 0..3, a \in {"zz", "1 / 0"}}
\* an argument object that spans several lines: the fault is on the line of the failing value
\cup {RunCase(Pad(n) \o <<"@component(\"~c\", {", "  m: 1,", "  n: " \o a, "})">>, n + 3, "argument-runtime-multiline") : n \in 0..3, a \in {"zz", "1 / 0", "1 + \"s\""}}

\* every fault and truncation again in a directory that was healthy and loaded a moment before (same process, same paths)
Healthy == SetToSeq({FileRec(m, Cat(GoodFiles[m]), "") : m \in DOMAIN GoodFiles})
AfterHealthy(cs) == {[files |-> c.files, first |-> Healthy, cfg |-> c.cfg, load |-> c.load, ops |-> c.ops, tags |-> c.tags \o <<"after-healthy-load">>] : c \in cs}

\* component files that use themselves or each other (also in a branch that is never taken): loading returns
CycleTrees == {PathCase(<<FileRec("components/self", "s@if(false)@component(\"~self\")@end", ""), FileRec("home", "h@component(\"~self\")", "")>>,
                        [any |-> TRUE, mentions |-> <<"components/self", "home">>], <<>>, "component-cycle"),
               PathCase(<<FileRec("components/a", "a@if(false)@component(\"~b\")@end", ""), FileRec("components/b", "b@if(false)@component(\"~a\")@end", ""), FileRec("home", "h@component(\"~a\")", "")>>,
                        [any |-> TRUE, mentions |-> <<"components/a", "components/b", "home">>], <<>>, "component-cycle"),
               PathCase(<<FileRec("layouts/l", "@use(\"~l\")@reserve(\"x\")", ""), FileRec("home", "@use(\"~l\")@insert(\"x\", 1)", "")>>,
                        [any |-> TRUE, mentions |-> <<"layouts/l", "home">>], <<>>, "layout-cycle")}
Cases == CASE Family = "c13tree" -> TreeFaults \cup BlankFaults \cup UnknownSpread \cup CompFaults \cup CycleTrees
           [] Family = "c18names" -> NameCases(Singles, Spellings, Exts)
           [] Family = "c18namesall" -> NameCases(Singles \cup Pairs, Spellings, Exts)
           [] Family = "c18faults" -> AfterHealthy(FaultCases \cup TruncCases) \cup FaultCases \cup TruncCases \cup BaseCase

Init == cas \in Cases /\ rec = FALSE
Next == ~rec /\ rec' = TRUE /\ UNCHANGED cas
Spec == Init /\ [][Next]_vars
Gen == (rec /\ Emit_) => PrintT(ToJson(cas))
=============================================================================
