------------------------------- MODULE RegInd -------------------------------
(* The custom-function registry of machine A for histories of ANY length (C20 FirstWins, C16 RenderFramesState):  *)
(* an inductive invariant discharged by Apalache.  reg is the set of (type, name, id) triples; id is the position    *)
(* of the registering call in the history.                                                                           *)
EXTENDS Integers, FiniteSets, Apalache

CONSTANTS
  \* @type: Set(Str);
  Types,
  \* @type: Set(Str);
  Names,
  \* @type: Bool;
  DevReplace      \* deviation switch: a later registration replaces the earlier one (must make the check fail)

VARIABLES
  \* @type: Set(<<Str, Str, Int>>);
  reg,
  \* @type: Int;
  next,
  \* @type: Set(<<Str, Str, Int>>);
  first

CInit == Types = {"str", "arr", "int", "float", "bool"} /\ Names = {"f", "g", "h"} /\ DevReplace = FALSE
CInitDev == Types = {"str", "arr", "int", "float", "bool"} /\ Names = {"f", "g", "h"} /\ DevReplace = TRUE

Init == reg = {} /\ next = 1 /\ first = {}

Has(t, n) == \E e \in reg : e[1] = t /\ e[2] = n
\* Register<T>Func(n): succeeds once, later attempts fail and leave the first function in place
Register(t, n) == /\ next' = next + 1
                  /\ IF Has(t, n) /\ DevReplace
                     THEN reg' = {e \in reg : ~(e[1] = t /\ e[2] = n)} \union {<<t, n, next>>} /\ UNCHANGED first
                     ELSE IF Has(t, n) THEN UNCHANGED <<reg, first>>
                     ELSE reg' = reg \union {<<t, n, next>>} /\ first' = first \union {<<t, n, next>>}
\* every render operation and NewTemplate leave the registry alone
Other == UNCHANGED <<reg, next, first>>
Next == (\E t \in Types : \E n \in Names : Register(t, n)) \/ Other

\* the registry is a function of (type, name); it holds exactly the first registrations; ids are past positions
IndInv == /\ next >= 1
          /\ reg = first
          /\ \A e1 \in reg : \A e2 \in reg : (e1[1] = e2[1] /\ e1[2] = e2[2]) => e1 = e2
          /\ \A e \in reg : e[3] >= 1 /\ e[3] < next /\ e[1] \in Types /\ e[2] \in Names
IndInit == /\ reg = Gen(15) /\ first = Gen(15) /\ next = Gen(1) /\ IndInv
\* what the invariant gives: a registered id never changes (FirstWins), stated as an action property
FirstWins == \A e \in reg : e \in reg'
=============================================================================
