------------------------------- MODULE MC_Eval -------------------------------
(***************************************************************************)
(* Bounded program families for machine E: C02 (@if chains, truthiness),   *)
(* C03 (loops, loop metadata, break/continue, @else), C04 (scoping, type   *)
(* stability, reserved 'loop').  TLC runs every program of the chosen      *)
(* family to its end, checking the invariants of TwEval in every state,    *)
(* and prints one replayable record per program at its terminal state.     *)
(***************************************************************************)
EXTENDS TwUnparse, Json

CONSTANTS Family, Emit_

VARIABLES cas        \* the case: [p |-> program, d |-> data bindings, tags]
vars == <<evars, cas>>

H(s) == Html(s, 1)
P(e) == PrintS(e, 1)
Br(c, body) == [c |-> c, body |-> body, ln |-> 1]

(* --------------------------- condition values --------------------------- *)
\* data supplied with every case of the C02 families
CondData == <<[n |-> "ti", v |-> I(3)], [n |-> "fi", v |-> I(0)], [n |-> "tf", v |-> F(1, 1)], [n |-> "ff", v |-> F(0, 0)],
              [n |-> "ts", v |-> S("a")], [n |-> "fs", v |-> S("")], [n |-> "nn", v |-> Nil],
              [n |-> "ea", v |-> A(<<>>)], [n |-> "eo", v |-> O(<<>>)], [n |-> "tb", v |-> B(TRUE)], [n |-> "fb", v |-> B(FALSE)],
              [n |-> "ar", v |-> A(<<I(1), I(2), I(3)>>)], [n |-> "tn", v |-> NaN], [n |-> "tq", v |-> NInf], [n |-> "fz", v |-> NZero],
              [n |-> "tt", v |-> F(1, 30)], [n |-> "tm", v |-> F(-1, 30)]>>        \* 2^-30 and its negative: tiny but not zero
Truthies == {BoolL(TRUE), IntL(1), FloatL(1, 1), StrL("a"), ArrL(<<>>), ArrL(<<IntL(0)>>), ObjL(<<>>),
             Var("ti"), Var("tf"), Var("ts"), Var("ea"), Var("eo"), Var("tb"), Pre("-", IntL(1)), StrL("0"), StrL(" "),
             \* NaN and the infinities are not zero
             Var("tn"), Var("tq"), Bin("/", FloatL(0, 0), FloatL(0, 0)), Bin("/", FloatL(1, 0), FloatL(0, 0)), Var("tt"), Var("tm")}
Falsies  == {BoolL(FALSE), NilL, IntL(0), FloatL(0, 0), StrL(""), Var("fi"), Var("ff"), Var("fs"), Var("nn"), Var("fb"),
             Bin("-", IntL(1), IntL(1)), Var("fz"), Pre("-", FloatL(0, 0))}     \* -0.0 is zero
Raisers  == {Var("zz"), Bin("/", IntL(1), IntL(0)), Bin("%", IntL(1), IntL(0)), Bin("+", IntL(1), StrL("a"))}
\* a small set that still has every class, for the chain products
CondsSmall == {BoolL(TRUE), ArrL(<<>>), Var("tf"), BoolL(FALSE), StrL(""), Var("nn"), Var("zz"), Bin("%", IntL(1), IntL(0))}
CondsAll == Truthies \cup Falsies \cup Raisers

(* ------------------------------ C02 families ------------------------------ *)
Chain1(C) == {If(<<Br(c1, <<H("[1]")>>)>>, els, 1) : c1 \in C, els \in {NoElse, <<H("[e]")>>}}
Chain2(C) == {If(<<Br(c1, <<H("[1]")>>), Br(c2, <<H("[2]")>>)>>, els, 1) : c1 \in C, c2 \in C, els \in {NoElse, <<H("[e]")>>}}
Chain3(C) == {If(<<Br(c1, <<H("[1]")>>), Br(c2, <<H("[2]")>>), Br(c3, <<H("[3]")>>)>>, els, 1) :
                c1 \in C, c2 \in C, c3 \in C, els \in {NoElse, <<H("[e]")>>}}
Wrap0(s) == <<H("<"), s, H(">")>>
\* the same chain at nesting positions: inside a taken branch, inside an @else, inside loop bodies
Ctx(s, c) == CASE c = "top" -> Wrap0(s)
               [] c = "then" -> <<H("a"), If(<<Br(BoolL(TRUE), Wrap0(s))>>, <<H("no")>>, 1), H("z")>>
               [] c = "else" -> <<H("a"), If(<<Br(BoolL(FALSE), <<H("no")>>)>>, Wrap0(s), 1), H("z")>>
               [] c = "elseif" -> <<H("a"), If(<<Br(NilL, <<H("no")>>), Br(IntL(1), Wrap0(s))>>, NoElse, 1), H("z")>>
               [] c = "each" -> <<H("a"), Each("q", ArrL(<<IntL(1), IntL(2)>>), Wrap0(s), NoElse, 1), H("z")>>
               [] c = "for" -> <<H("a"), For(Assign("j", IntL(0), 1), Bin("<", Var("j"), IntL(2)), Post("++", Var("j")),
                                             Wrap0(s), NoElse, 1), H("z")>>
               [] c = "deep" -> <<If(<<Br(IntL(1), <<Each("q", Var("ar"), <<If(<<Br(Bin("==", Var("q"), IntL(2)), Wrap0(s))>>,
                                                                                 <<H(".")>>, 1)>>, NoElse, 1)>>)>>, NoElse, 1)>>
Ctxs == {"top", "then", "else", "elseif", "each", "for", "deep"}

\* truthiness through the ternary, @breakIf and @continueIf (and @if) for every value kind
TruthProbe(c) == {<<P(Tern(c, StrL("T"), StrL("F")))>>,
                  <<Each("q", Var("ar"), <<H("["), P(Var("q")), H("]"), BreakIf(c, 1)>>, NoElse, 1)>>,
                  <<Each("q", Var("ar"), <<ContinueIf(c, 1), H("["), P(Var("q")), H("]")>>, NoElse, 1)>>,
                  <<If(<<Br(c, <<H("T")>>)>>, <<H("F")>>, 1)>>,
                  <<If(<<Br(BoolL(FALSE), <<H("x")>>), Br(c, <<H("T")>>)>>, <<H("F")>>, 1)>>}

(* ------------------------------ C03 families ------------------------------ *)
V == Var("v")
LoopF(f) == Dot(Var("loop"), f)
Meta == <<H("("), P(V), H(":"), P(LoopF("index")), H(","), P(LoopF("iter")), H(","), P(LoopF("first")), H(","), P(LoopF("last")), H(")")>>
Arrays == {ArrL(<<>>), ArrL(<<IntL(5)>>), ArrL(<<IntL(1), IntL(2)>>), ArrL(<<IntL(1), IntL(2), IntL(3)>>),
           ArrL(<<IntL(1), IntL(2), IntL(3), IntL(4)>>), Var("ar"), Var("ea"), ArrL(<<StrL("p"), StrL("q")>>)}
IsTwo == Bin("==", V, IntL(2))
Jumps == {Break(1), Continue(1), BreakIf(IsTwo, 1), ContinueIf(IsTwo, 1), BreakIf(LoopF("last"), 1),
          ContinueIf(LoopF("first"), 1), BreakIf(BoolL(FALSE), 1), ContinueIf(NilL, 1)}
\* a jump placed before, between and after the emitting statements of the body, bare or under nested @if
Placed(j) == {<<j, H("a"), P(V), H("b")>>, <<H("a"), j, P(V), H("b")>>, <<H("a"), P(V), H("b"), j>>,
              <<H("a"), If(<<Br(IsTwo, <<H("!"), j, H("?")>>)>>, NoElse, 1), P(V), H("b")>>,
              <<H("a"), If(<<Br(Bin("<", V, IntL(2)), <<H("lo")>>)>>, <<H("hi"), j, H("?")>>, 1), P(V), H("b")>>,
              <<H("a"), If(<<Br(BoolL(FALSE), <<H("n")>>), Br(IsTwo, <<If(<<Br(IntL(1), <<H("!"), j>>)>>, NoElse, 1), H("?")>>)>>,
                           NoElse, 1), P(V), H("b")>>}
\* the loop object of the passes that follow a pass cut short by a jump
AfterJump == {<<H("<"), Each("v", Var("ar"), <<j>> \o Meta, NoElse, 1), H(">")>> :
                j \in {ContinueIf(LoopF("first"), 1), ContinueIf(Bin("<", V, IntL(3)), 1), If(<<Br(LoopF("first"), <<Continue(1)>>)>>, NoElse, 1),
                       ContinueIf(Bin("==", LoopF("iter"), IntL(2)), 1), BreakIf(LoopF("last"), 1)}}
IntArrays == {ArrL(<<IntL(1), IntL(2), IntL(3)>>), ArrL(<<IntL(2)>>), Var("ar"), ArrL(<<>>)}
\* a loop field bound to a name in one pass keeps its value when it is read in later passes
KeptFields == {<<Each("v", Var("ar"), <<Assign("p", Tern(LoopF("first"), LoopF(f), Var("p")), 1), H("<"), P(Var("p")), H(">")>>, NoElse, 1)>> : f \in {"iter", "index", "first", "last"}}
              \cup {<<Assign("acc", ArrL(<<IntL(0)>>), 1), Each("v", Var("ar"), <<Assign("acc", Call(Var("acc"), "append", <<LoopF(f)>>), 1), P(Var("acc")), H(";")>>, NoElse, 1)>> : f \in {"iter", "index"}}
              \cup {<<Each("v", Var("ar"), <<Assign("l", Tern(LoopF("first"), Var("loop"), Var("l")), 1), P(Dot(Var("l"), "iter")), P(Dot(Var("l"), "last")), H(",")>>, NoElse, 1)>>}
\* a loop over an array literal whose elements depend on the pass of an enclosing loop
DepArrays == {<<Each("v", Var("ar"), <<Each("w", ArrL(<<V, Bin("*", V, IntL(10))>>), <<P(Var("w")), H(" ")>>, NoElse, 1), H("|")>>, NoElse, 1)>>,
              <<For(Assign("i", IntL(0), 1), Bin("<", Var("i"), IntL(3)), Post("++", Var("i")), <<Each("w", ArrL(<<Var("i")>>), <<P(Var("w"))>>, NoElse, 1)>>, NoElse, 1)>>,
              <<Each("v", Var("ar"), <<Each("w", ArrL(<<LoopF("iter"), ArrL(<<V>>)>>), <<P(Var("w")), H(",")>>, NoElse, 1), H(";")>>, NoElse, 1)>>}
EachLoops == AfterJump \cup KeptFields \cup DepArrays \cup {<<H("<"), Each("v", a, Meta, els, 1), H(">")>> : a \in Arrays, els \in {NoElse, <<H("[empty]")>>}}
       \cup {<<H("<"), Each("v", a, b, els, 1), H(">")>> : a \in IntArrays, els \in {NoElse, <<H("[empty]")>>},
                                                            b \in UNION {Placed(j) : j \in Jumps}}
\* @for: init, condition, step direction
ForHeads == {[i |-> 0, c |-> Bin("<", Var("i"), IntL(3)), p |-> Post("++", Var("i"))],
             [i |-> 3, c |-> Bin(">", Var("i"), IntL(0)), p |-> Post("--", Var("i"))],
             [i |-> 0, c |-> Bin("<=", Var("i"), IntL(4)), p |-> Bin("+", Var("i"), IntL(2))],
             [i |-> 0, c |-> Bin("!=", Var("i"), IntL(2)), p |-> Post("++", Var("i"))],
             [i |-> 5, c |-> Bin("<", Var("i"), IntL(3)), p |-> Post("++", Var("i"))],
             [i |-> 2, c |-> Var("i"), p |-> Post("--", Var("i"))]}
IIsTwo == Bin("==", Var("i"), IntL(2))
FJumps == {Break(1), Continue(1), BreakIf(IIsTwo, 1), ContinueIf(IIsTwo, 1)}
FPlaced(j) == {<<j, H("a"), P(Var("i"))>>, <<H("a"), P(Var("i")), j, H("b")>>,
               <<H("a"), If(<<Br(IIsTwo, <<H("!"), j>>)>>, NoElse, 1), P(Var("i"))>>}
ForLoops == {<<H("<"), For(Assign("i", IntL(h.i), 1), h.c, h.p, <<H("["), P(Var("i")), H("]")>>, els, 1), H(">")>> :
                h \in ForHeads, els \in {NoElse, <<H("[never]")>>}}
       \cup {<<H("<"), For(Assign("i", IntL(h.i), 1), h.c, h.p, b, els, 1), H(">")>> :
                h \in ForHeads, b \in UNION {FPlaced(j) : j \in FJumps}, els \in {NoElse, <<H("[never]")>>}}
       \* passes that emit nothing: the @else body belongs to "condition false at entry" only
       \cup {<<H("<"), For(Assign("i", IntL(0), 1), Bin("<", Var("i"), IntL(3)), Post("++", Var("i")), b, <<H("[never]")>>, 1), H(">")>> :
                b \in {<<Continue(1), H("x")>>, <<Break(1)>>, <<ContinueIf(BoolL(TRUE), 1)>>, <<If(<<Br(BoolL(TRUE), <<Break(1)>>)>>, NoElse, 1)>>,
                        <<Assign("q", Var("i"), 1)>>, <<>>}}
       \* absent clauses: the @else body belongs to "condition false at entry" whatever clauses the header has
       \cup {<<H("<"), For(Assign("i", IntL(s0), 1), Bin("<", Var("i"), IntL(2)), NoPost, <<H("["), P(Var("i")), H("]"), Assign("i", Bin("+", Var("i"), IntL(1)), 1)>>, els, 1), H(">")>> :
                s0 \in {0, 1, 5}, els \in {NoElse, <<H("[none]")>>}}
       \cup {<<Assign("k", IntL(s0), 1), H("<"), For(NoInit, Bin("<", Var("k"), IntL(2)), Assign("k", Bin("+", Var("k"), IntL(1)), 1), <<H("["), P(Var("k")), H("]")>>, els, 1), H(">"), P(Var("k"))>> :
                s0 \in {0, 1, 5}, els \in {NoElse, <<H("[none]")>>}}
       \cup {<<Assign("k", IntL(s0), 1), H("<"), For(NoInit, Bin("<", Var("k"), IntL(2)), NoPost, <<Assign("k", Bin("+", Var("k"), IntL(1)), 1), H("["), P(Var("k")), H("]")>> \o j, els, 1), H(">"), P(Var("k"))>> :
                s0 \in {0, 5}, els \in {NoElse, <<H("[none]")>>}, j \in {<<>>, <<Break(1)>>, <<ContinueIf(BoolL(TRUE), 1), H("never")>>}}
\* nesting: each loop sees its own loop object, the outer one is restored; jumps act on the innermost loop;
\* a jump in an inner loop's @else body acts on the loop around it
InnerEach(j) == Each("w", ArrL(<<IntL(7), IntL(8)>>),
                     <<H("["), P(Var("w")), P(LoopF("index")), j, H("]")>>, NoElse, 1)
InnerFor(j) == For(Assign("k", IntL(0), 1), Bin("<", Var("k"), IntL(2)), Post("++", Var("k")),
                   <<H("["), P(Var("k")), j, H("]")>>, NoElse, 1)
InnerElse(j) == Each("w", ArrL(<<>>), <<H("never")>>, <<H("E"), j, H("F")>>, 1)
NJumps == {Html("", 1), Break(1), Continue(1), BreakIf(Bin("==", V, IntL(2)), 1), ContinueIf(Bin("==", V, IntL(1)), 1),
           If(<<Br(Bin("==", V, IntL(2)), <<H("!"), Break(1)>>)>>, <<H("-")>>, 1), If(<<Br(Bin("<", V, IntL(2)), <<H("lo")>>)>>, <<Continue(1)>>, 1)}
Nested == {<<Each("v", Var("ar"), <<H("("), P(V), P(LoopF("iter")), inner, P(LoopF("iter")), H(")")>>, NoElse, 1)>> :
              inner \in {InnerEach(j) : j \in NJumps} \cup {InnerFor(j) : j \in NJumps} \cup {InnerElse(j) : j \in NJumps}}
      \cup {<<For(Assign("v", IntL(1), 1), Bin("<=", V, IntL(3)), Post("++", V), <<H("("), P(V), inner, H(")")>>, NoElse, 1)>> :
              inner \in {InnerEach(j) : j \in NJumps} \cup {InnerFor(j) : j \in NJumps} \cup {InnerElse(j) : j \in NJumps}}
\* a jump in the OUTER loop after an inner loop, and three levels
Nested3 == {<<Each("v", Var("ar"), <<H("("), InnerEach(Html("", 1)), j, P(V), H(")")>>, NoElse, 1)>> : j \in NJumps}
      \cup {<<Each("v", Var("ar"), <<H("("), P(LoopF("index")), Each("w", ArrL(<<IntL(7), IntL(8)>>),
                      <<H("["), P(LoopF("index")), For(Assign("k", IntL(0), 1), Bin("<", Var("k"), IntL(2)), Post("++", Var("k")),
                                                     <<H("<"), P(Var("k")), j, P(Var("w")), H(">")>>, NoElse, 1), P(LoopF("index")), H("]")>>, NoElse, 1),
                      P(LoopF("index")), H(")")>>, NoElse, 1)>> : j \in {Html("", 1), Break(1), Continue(1), BreakIf(Bin("==", Var("w"), IntL(8)), 1)}}
\* iterating a non-array is an error (C03)
NonArrays == {<<H("a"), Each("v", e, <<H("x")>>, els, 1), H("z")>> :
                e \in {IntL(1), StrL("ab"), NilL, BoolL(TRUE), FloatL(1, 1), ObjL(<<>>), Var("ti"), Var("ts"), Var("nn"), Var("eo")},
                els \in {NoElse, <<H("e")>>}}

(* ------------------------------ C04 families ------------------------------ *)
\* operations over names x, y with values of several types; R(n) prints the name or "-" when it must be invisible
TVals == {IntL(1), IntL(2), StrL("s"), BoolL(TRUE), ArrL(<<IntL(9)>>), FloatL(1, 1), NilL, ObjL(<<>>)}     \* nil is a type like the others
Rd(n) == <<H("("), P(Var(n)), H(")")>>
OpsXY == {<<Assign("x", v, 1)>> : v \in TVals} \cup {<<Assign("y", v, 1)>> : v \in {IntL(5), StrL("t")}}
         \cup {Rd("x"), Rd("y")}
\* skeletons: S(a, b, c) = operation lists at the positions before / inside / after a construct
Skel(kind, a, b, c) ==
  CASE kind = "flat" -> a \o b \o c
    [] kind = "if" -> a \o <<If(<<Br(BoolL(TRUE), <<H("[")>> \o b \o <<H("]")>>)>>, NoElse, 1)>> \o c
    [] kind = "else" -> a \o <<If(<<Br(IntL(0), <<H("no")>>)>>, <<H("[")>> \o b \o <<H("]")>>, 1)>> \o c
    [] kind = "each" -> a \o <<Each("e", ArrL(<<IntL(1), IntL(2)>>), <<H("[")>> \o b \o <<H("]")>>, NoElse, 1)>> \o c
    [] kind = "for" -> a \o <<For(Assign("f", IntL(0), 1), Bin("<", Var("f"), IntL(2)), Post("++", Var("f")),
                                  <<H("[")>> \o b \o <<H("]")>>, NoElse, 1)>> \o c
    [] kind = "ifeach" -> a \o <<If(<<Br(IntL(1), <<Each("e", ArrL(<<IntL(1)>>), <<H("[")>> \o b \o <<H("]")>>, NoElse, 1)>>)>>,
                                    NoElse, 1)>> \o c
    [] kind = "eachelse" -> a \o <<Each("e", ArrL(<<>>), <<H("never")>>, <<H("[")>> \o b \o <<H("]")>>, 1)>> \o c
    [] kind = "forelse" -> a \o <<For(Assign("f", IntL(5), 1), Bin("<", Var("f"), IntL(2)), Post("++", Var("f")), <<H("never")>>,
                                     <<H("[")>> \o b \o <<H("]")>>, 1)>> \o c
    [] kind = "elseif" -> a \o <<If(<<Br(NilL, <<H("no")>>), Br(IntL(1), <<H("[")>> \o b \o <<H("]")>>)>>, <<H("no")>>, 1)>> \o c
    [] kind = "eachx" -> a \o <<Each("x", ArrL(<<IntL(7), IntL(8)>>), <<H("[")>> \o b \o <<H("]")>>, NoElse, 1)>> \o c
    [] kind = "eachxs" -> a \o <<Each("x", ArrL(<<StrL("p")>>), <<H("[")>> \o b \o <<H("]")>>, NoElse, 1)>> \o c
    [] kind = "forx" -> a \o <<For(Assign("x", IntL(0), 1), Bin("<", Var("x"), IntL(2)), Post("++", Var("x")),
                                   <<H("[")>> \o b \o <<H("]")>>, NoElse, 1)>> \o c
    \* a @for without an init clause is a block like the others: what its body, its post clause or its @else body assign is
    \* gone after @end (the counter k of the enclosing block still holds 0 there)
    [] kind = "forni" -> a \o <<Assign("k", IntL(0), 1), For(NoInit, Bin("<", Var("k"), IntL(2)), Assign("k", Bin("+", Var("k"), IntL(1)), 1),
                                                              <<H("[")>> \o b \o <<H("]")>>, NoElse, 1), P(Var("k"))>> \o c
    [] kind = "fornibreak" -> a \o <<For(NoInit, BoolL(TRUE), NoPost, <<H("[")>> \o b \o <<H("]"), Break(1)>>, NoElse, 1)>> \o c
    [] kind = "fornielse" -> a \o <<For(NoInit, BoolL(FALSE), NoPost, <<H("never")>>, <<H("[")>> \o b \o <<H("]")>>, 1)>> \o c
Skels == {"flat", "if", "else", "elseif", "each", "for", "eachelse", "forelse", "ifeach", "eachx", "eachxs", "forx", "forni", "fornibreak", "fornielse"}
DataSets == {<<>>, <<[n |-> "x", v |-> I(4)]>>, <<[n |-> "x", v |-> S("d")]>>, <<[n |-> "y", v |-> I(6)], [n |-> "x", v |-> B(FALSE)]>>,
             <<[n |-> "x", v |-> Nil]>>}
ScopeProgsOf(As, Cs) == {[p |-> Skel(k, a, b \o b2, c \o Rd("x")), d |-> d] :
                 k \in Skels, a \in As, b \in OpsXY, b2 \in {Rd("x"), <<>>}, c \in Cs, d \in DataSets}
SmallOps == {<<Assign("x", IntL(1), 1)>>, <<Assign("x", StrL("s"), 1)>>, <<Assign("x", NilL, 1)>>, <<Assign("y", IntL(5), 1)>>, <<>>}
ScopeProgs == ScopeProgsOf(SmallOps, {<<Assign("x", IntL(2), 1)>>, <<Assign("x", BoolL(TRUE), 1)>>, <<>>})
ScopeProgsAll == ScopeProgsOf(OpsXY \cup {<<>>}, OpsXY \cup {<<>>})
\* 'loop' can never be assigned or supplied as data; loop-bound names vanish after the construct
\* every kind of value (also an object shaped like the loop object, the loop object itself, data-supplied objects) assigned
\* to 'loop' at every kind of position: the scope that holds the loop object, scopes inside it, scopes without one
LoopVals == {IntL(1), StrL("s"), BoolL(TRUE), FloatL(3, 1), NilL, ArrL(<<IntL(1)>>), ObjL(<<>>),
             ObjL(<<[key |-> "index", ex |-> IntL(9)], [key |-> "first", ex |-> BoolL(TRUE)]>>), Var("ob"), Var("loop"), Var("ti")}
LoopData == CondData \o <<[n |-> "ob", v |-> O(<<[pk |-> "index", pv |-> I(7)]>>)]>>
LoopDataVals == {I(1), S("s"), B(TRUE), F(3, 1), Nil, A(<<I(1)>>), O(<<>>), O(<<[pk |-> "index", pv |-> I(7)]>>)}
For2(body) == For(Assign("i", IntL(0), 1), Bin("<", Var("i"), IntL(2)), Post("++", Var("i")), body, NoElse, 1)
\* a @for has no loop object of its own: inside a @for nested in an @each, 'loop' is the @each's; in a @for that no @each
\* surrounds, 'loop' is an unknown name
LoopShow == <<P(LoopF("index")), P(LoopF("iter")), P(Tern(LoopF("first"), StrL("F"), StrL("-"))), P(Tern(LoopF("last"), StrL("L"), StrL("-")))>>
LoopInFor == {<<Each("v", Var("ar"), <<H("("), P(V), For2(<<H("[")>> \o LoopShow \o <<P(Var("i")), H("]")>>), P(LoopF("iter")), H(")")>>, NoElse, 1)>>,
              <<Each("v", Var("ar"), <<For2(<<If(<<Br(LoopF("last"), <<H("L"), P(Var("i"))>>)>>, <<H("n")>>, 1)>>)>>, NoElse, 1)>>,
              <<Each("v", Var("ar"), <<For2(<<Each("w", ArrL(<<IntL(7)>>), LoopShow, NoElse, 1), H("/")>> \o LoopShow \o <<H(";")>>)>>, NoElse, 1)>>,
              <<H("a"), For2(<<P(LoopF("index"))>>), H("z")>>,
              <<For2(<<P(Var("i")), If(<<Br(Bin("==", Var("i"), IntL(1)), <<P(LoopF("iter"))>>)>>, NoElse, 1)>>)>>,
              <<For2(<<For2(<<P(Tern(LoopF("first"), IntL(1), IntL(2)))>>)>>)>>}
LoopCtx(st) == {<<st, H("z")>>,
                <<H("a"), If(<<Br(IntL(1), <<st>>)>>, NoElse, 1)>>,
                <<Each("v", Var("ar"), <<st, P(LoopF("index"))>>, NoElse, 1)>>,
                <<Each("v", Var("ar"), <<P(LoopF("iter")), st>>, NoElse, 1)>>,
                <<Each("v", Var("ar"), <<If(<<Br(BoolL(TRUE), <<st>>)>>, NoElse, 1), P(LoopF("index"))>>, NoElse, 1)>>,
                <<Each("v", Var("ar"), <<Each("w", Var("ar"), <<st>>, NoElse, 1)>>, NoElse, 1)>>,
                <<Each("v", ArrL(<<>>), <<H("b")>>, <<st>>, 1)>>,
                <<Each("v", Var("ar"), <<P(V)>>, NoElse, 1), st>>,
                <<For2(<<st, P(Var("i"))>>)>>,
                <<Each("v", Var("ar"), <<For2(<<st>>)>>, NoElse, 1)>>}
LoopProgs == {[p |-> <<Assign("loop", IntL(1), 1)>>, d |-> <<>>],
              [p |-> <<H("a"), If(<<Br(IntL(1), <<Assign("loop", StrL("s"), 1)>>)>>, NoElse, 1)>>, d |-> <<>>],
              [p |-> <<Each("v", Var("ar"), <<Assign("loop", IntL(1), 1)>>, NoElse, 1)>>, d |-> CondData],
              [p |-> <<H("x")>>, d |-> <<[n |-> "loop", v |-> I(1)]>>],
              [p |-> <<H("x")>>, d |-> <<[n |-> "a", v |-> I(1)], [n |-> "loop", v |-> S("s")]>>],
              [p |-> <<Each("v", Var("ar"), <<P(V)>>, NoElse, 1), P(V)>>, d |-> CondData],
              [p |-> <<Each("v", Var("ar"), <<P(V)>>, NoElse, 1), P(LoopF("index"))>>, d |-> CondData],
              [p |-> <<For(Assign("i", IntL(0), 1), Bin("<", Var("i"), IntL(2)), Post("++", Var("i")), <<P(Var("i"))>>, NoElse, 1),
                       P(Var("i"))>>, d |-> <<>>],
              [p |-> <<Each("v", Var("ar"), <<Assign("t", V, 1)>>, NoElse, 1), P(Var("t"))>>, d |-> CondData],
              [p |-> <<Each("v", ArrL(<<IntL(1), StrL("s")>>), <<P(V)>>, NoElse, 1)>>, d |-> <<>>]}
             \cup {[p |-> p, d |-> LoopData] : p \in UNION {LoopCtx(Assign("loop", e, 1)) : e \in LoopVals}}
             \* 'loop' as the variable of an @each / @for: refused whatever the elements are (one element, objects, none at all
             \* is the only case in which nothing is bound)
             \cup {[p |-> <<H("a"), Each("loop", a, <<H("x")>>, NoElse, 1), H("z")>>, d |-> CondData] :
                     a \in {ArrL(<<IntL(7)>>), ArrL(<<ObjL(<<>>)>>), ArrL(<<ObjL(<<[key |-> "index", ex |-> IntL(0)]>>), ObjL(<<[key |-> "index", ex |-> IntL(1)]>>)>>), Var("ar"), ArrL(<<StrL("s"), StrL("t")>>)}}
             \cup {[p |-> <<Each("v", Var("ar"), <<Each("loop", ArrL(<<IntL(7)>>), <<P(V)>>, NoElse, 1)>>, NoElse, 1)>>, d |-> CondData],
                   [p |-> <<For(Assign("loop", IntL(0), 1), Bin("<", Var("i"), IntL(1)), Post("++", Var("i")), <<H("x")>>, NoElse, 1)>>, d |-> <<[n |-> "i", v |-> I(0)]>>]}
             \* the scope of an @if inside a loop ends with every pass: a name assigned in it is unknown in the next pass,
             \* and may get a value of another type there
             \cup {[p |-> <<Each("v", Var("ar"), <<If(<<Br(BoolL(TRUE), <<P(Tern(LoopF("first"), IntL(0), Var("t"))), Assign("t", V, 1)>>)>>, NoElse, 1)>>, NoElse, 1)>>, d |-> CondData],
                   [p |-> <<Each("v", Var("ar"), <<If(<<Br(BoolL(TRUE), <<Assign("t", Tern(LoopF("first"), IntL(1), StrL("a")), 1), P(Var("t"))>>)>>, NoElse, 1)>>, NoElse, 1)>>, d |-> CondData],
                   [p |-> <<For(Assign("i", IntL(0), 1), Bin("<", Var("i"), IntL(2)), Post("++", Var("i")),
                               <<If(<<Br(Bin("==", Var("i"), IntL(0)), <<Assign("t", IntL(1), 1)>>)>>, <<P(Var("t"))>>, 1)>>, NoElse, 1)>>, d |-> <<>>]}
             \* names that differ in the case of their first letter are different names
             \cup {[p |-> <<Assign("Xa", IntL(1), 1), P(Var("xa"))>>, d |-> <<>>], [p |-> <<Assign("xa", IntL(1), 1), P(Var("Xa"))>>, d |-> <<>>],
                   [p |-> <<Assign("Xa", IntL(1), 1), Assign("xa", StrL("s"), 1), P(Var("xa")), P(Var("Xa"))>>, d |-> <<>>],
                   [p |-> <<Each("xa", ArrL(<<StrL("p")>>), <<P(Var("xa")), P(Var("Xa"))>>, NoElse, 1)>>, d |-> <<[n |-> "Xa", v |-> I(4)]>>],
                   [p |-> <<P(Var("age")), P(Var("Age"))>>, d |-> <<[n |-> "Age", v |-> I(4)], [n |-> "age", v |-> S("s")]>>],
                   [p |-> <<P(Var("age"))>>, d |-> <<[n |-> "Age", v |-> I(4)]>>]}
             \* a name of the enclosing block read and then assigned in the body: the loop's own binding is what later passes read
             \cup {[p |-> <<Assign("t", IntL(0), 1), Each("v", Var("ar"), <<Assign("t", Bin("+", Var("t"), V), 1), P(Var("t")), H(",")>>, NoElse, 1), H("="), P(Var("t"))>>, d |-> CondData],
                   [p |-> <<Each("v", Var("ar"), <<P(Var("ti")), Assign("ti", Bin("+", Var("ti"), IntL(1)), 1), H(",")>>, NoElse, 1), P(Var("ti"))>>, d |-> CondData],
                   [p |-> <<Assign("t", IntL(0), 1), For(Assign("i", IntL(0), 1), Bin("<", Var("i"), IntL(3)), Post("++", Var("i")),
                                                          <<If(<<Br(BoolL(TRUE), <<P(Var("t"))>>)>>, NoElse, 1), Assign("t", Bin("+", Var("t"), Var("i")), 1), P(Var("t")), H(",")>>, NoElse, 1), P(Var("t"))>>, d |-> <<>>]}
             \cup {[p |-> <<H("x"), P(Var("a"))>>, d |-> <<[n |-> "a", v |-> I(1)], [n |-> "loop", v |-> v]>>] : v \in LoopDataVals}

\* empty bodies: a branch, an @else or a loop body may be empty (C02: "nothing otherwise")
ParenText == {<<H("a"), If(<<Br(c1, <<H("(1)")>>), Br(c2, <<H("(2)")>>)>>, e, 1), H("(z)")>> :
                c1 \in {BoolL(TRUE), BoolL(FALSE)}, c2 \in {BoolL(TRUE), BoolL(FALSE)}, e \in {NoElse, <<H("(e)")>>, <<H("( e")>>}}
             \cup {<<Each("v", a, <<H("(b)"), Continue(1), H("(never)")>>, <<H("(e)")>>, 1), H("(z)")>> : a \in {ArrL(<<>>), ArrL(<<IntL(1)>>)}}
             \cup {<<Each("v", ArrL(<<IntL(1), IntL(2)>>), <<P(V), Break(1), H("(never)")>>, NoElse, 1), H("(z)")>>}
\* the same construct evaluated several times with conditions whose truth changes from pass to pass
LoopConds == {<<Each("v", a, <<If(<<Br(c1, <<H("F")>>), Br(c2, <<H("L")>>)>>, <<H("-")>>, 1)>>, NoElse, 1)>> :
                a \in {Var("ar"), ArrL(<<IntL(0), IntL(1), IntL(0)>>)},
                c1 \in {LoopF("first"), Bin("==", LoopF("index"), IntL(1)), Idx(ArrL(<<BoolL(FALSE), BoolL(TRUE), BoolL(FALSE)>>), LoopF("index")), V},
                c2 \in {LoopF("last"), Bin(">", LoopF("iter"), IntL(1)), Dot(ObjL(<<[key |-> "k", ex |-> V]>>), "k")}}
             \cup {<<Each("v", Var("ar"), <<P(Tern(LoopF("first"), StrL("F"), Tern(LoopF("last"), StrL("L"), StrL("-"))))>>, NoElse, 1)>>,
                   <<For(Assign("i", IntL(0), 1), Bin("<", Var("i"), IntL(3)), Post("++", Var("i")),
                         <<If(<<Br(Idx(Var("ar"), Var("i")), <<P(Var("i"))>>), Br(Bin("==", Var("i"), IntL(1)), <<H("one")>>)>>, <<H("-")>>, 1)>>, NoElse, 1)>>}
\* an @if chain nested in the body of a later @elseif of another chain (each chain keeps its own branches)
Chain(c1, c2, c3, b3) == If(<<Br(c1, <<H("A")>>), Br(c2, <<H("B")>>), Br(c3, b3)>>, <<H("E")>>, 1)
NestedChains == {<<H("<"), Chain(c1, c2, c3, <<H("c"), If(<<Br(d1, <<H("D")>>), Br(d2, <<H("F")>>)>>, e, 1)>>), H(">")>> :
                   c1 \in {BoolL(TRUE), BoolL(FALSE)}, c2 \in {BoolL(TRUE), BoolL(FALSE)}, c3 \in {BoolL(TRUE), BoolL(FALSE)},
                   d1 \in {BoolL(TRUE), BoolL(FALSE)}, d2 \in {BoolL(TRUE), BoolL(FALSE)}, e \in {NoElse, <<H("G")>>}}
                \cup {<<If(<<Br(BoolL(FALSE), <<H("A")>>), Br(c2, <<Chain(BoolL(FALSE), d1, d2, <<H("x")>>)>>), Br(c3, <<H("C")>>)>>, NoElse, 1)>> :
                   c2 \in {BoolL(TRUE), BoolL(FALSE)}, c3 \in {BoolL(TRUE), BoolL(FALSE)}, d1 \in {BoolL(TRUE), BoolL(FALSE)}, d2 \in {BoolL(TRUE), BoolL(FALSE)}}
\* the loop object read only inside index brackets, a call's arguments, an object literal
LoopInIndex == {<<Each("v", Var("ar"), <<P(Idx(Var("ar"), LoopF("index"))), H(",")>>, NoElse, 1)>>,
                <<Each("v", Var("ar"), <<P(Idx(ArrL(<<StrL("a"), StrL("b"), StrL("c")>>), LoopF("index")))>>, NoElse, 1)>>,
                <<Each("w", ArrL(<<IntL(7), IntL(8)>>), <<Each("v", Var("ar"), <<P(Idx(Var("ar"), LoopF("index")))>>, NoElse, 1), P(Idx(Var("ar"), LoopF("index"))), H(";")>>, NoElse, 1)>>,
                <<Each("v", Var("ar"), <<P(Dot(ObjL(<<[key |-> "k", ex |-> LoopF("iter")]>>), "k"))>>, NoElse, 1)>>,
                <<Each("v", Var("ar"), <<P(Tern(BoolL(TRUE), Idx(ArrL(<<LoopF("first"), LoopF("last")>>), IntL(1)), IntL(0)))>>, NoElse, 1)>>}
\* the bodies of the branches that are NOT chosen are not evaluated either: what they would raise does not surface, what they
\* would assign is not assigned
Deads == {<<P(Var("zz"))>>, <<P(Bin("/", IntL(1), IntL(0)))>>, <<Assign("t", IntL(1), 1)>>, <<P(Dot(Var("nn"), "name"))>>, <<Each("q", IntL(5), <<H("x")>>, NoElse, 1)>>}
Live == <<H("T"), Assign("t", StrL("s"), 1), P(Var("t"))>>
DeadBodies == {<<H("a"), If(<<Br(c, Live)>>, dead, 1), H("z")>> : c \in {BoolL(TRUE), IntL(1), Var("ts")}, dead \in Deads}
         \cup {<<H("a"), If(<<Br(BoolL(FALSE), d1), Br(IntL(1), Live), Br(BoolL(TRUE), d2)>>, d3, 1), H("z")>> : d1 \in Deads, d2 \in Deads, d3 \in Deads}
         \cup {<<H("a"), If(<<Br(Var("fs"), d1), Br(Var("nn"), d2)>>, Live, 1), H("z")>> : d1 \in Deads, d2 \in Deads}
         \cup {<<Each("v", Var("ar"), <<If(<<Br(Bin("==", V, IntL(2)), <<H("two")>>)>>, <<P(V)>>, 1), If(<<Br(BoolL(TRUE), <<H(".")>>)>>, d, 1)>>, NoElse, 1)>> : d \in Deads}
\* an inner loop's array expression and its @else body are evaluated in the OUTER loop's pass: 'loop' there is the outer loop's
LoopInHeader == {<<Each("v", Var("ar"), <<H("("), Each("w", Idx(ArrL(<<ArrL(<<IntL(7), IntL(8)>>), ArrL(<<IntL(9)>>), ArrL(<<>>)>>), LoopF("index")), <<P(Var("w")), P(LoopF("index"))>>, <<H("none"), P(LoopF("iter"))>>, 1), H(")")>>, NoElse, 1)>>,
                 <<Each("v", Var("ar"), <<Each("w", ArrL(<<LoopF("iter"), LoopF("index")>>), <<P(Var("w")), H(",")>>, NoElse, 1), H(";")>>, NoElse, 1)>>,
                 <<Each("v", Var("ar"), <<Each("w", ArrL(<<>>), <<H("never")>>, <<P(LoopF("iter")), P(Tern(LoopF("last"), StrL("L"), StrL("-")))>>, 1)>>, NoElse, 1)>>,
                 <<Each("v", Var("ar"), <<For(Assign("i", LoopF("index"), 1), Bin("<", Var("i"), IntL(2)), Post("++", Var("i")), <<P(Var("i"))>>, <<H("e"), P(LoopF("iter"))>>, 1), H(";")>>, NoElse, 1)>>}
\* an @else body that is exactly one nested @if chain (no text around it): the inner chain keeps all its branches
TF == {BoolL(TRUE), BoolL(FALSE)}
ElseIsIf == {<<H("<"), If(<<Br(c0, <<H("A")>>)>>, <<If(<<Br(c1, <<H("B")>>), Br(c2, <<H("C")>>)>>, e, 1)>>, 1), H(">")>> : c0 \in TF, c1 \in TF, c2 \in TF \cup {Var("zz")}, e \in {NoElse, <<H("E")>>}}
       \cup {<<H("<"), If(<<Br(c0, <<H("A")>>)>>, <<If(<<Br(c1, <<H("B")>>)>>, <<If(<<Br(c2, <<H("C")>>), Br(c3, <<H("D")>>)>>, <<H("E")>>, 1)>>, 1)>>, 1), H(">")>> : c0 \in TF, c1 \in TF, c2 \in TF, c3 \in TF}
       \cup {<<If(<<Br(BoolL(FALSE), <<H("A")>>), Br(c0, <<H("A2")>>)>>, <<If(<<Br(c1, <<H("B")>>), Br(c2, <<H("C")>>), Br(c3, <<H("D")>>)>>, NoElse, 1)>>, 1)>> : c0 \in TF, c1 \in TF, c2 \in TF, c3 \in TF}
EmptyBodies == ParenText \cup LoopConds \cup NestedChains \cup LoopInIndex \cup DeadBodies \cup ElseIsIf \cup
               {<<H("a"), If(<<Br(c1, b1)>>, e, 1), H("z")>> : c1 \in {BoolL(TRUE), BoolL(FALSE)}, b1 \in {<<>>, <<H("[1]")>>}, e \in {NoElse, <<>>, <<H("[e]")>>}}
          \cup {<<H("a"), If(<<Br(c1, b1), Br(c2, b2)>>, e, 1), H("z")>> : c1 \in {BoolL(TRUE), BoolL(FALSE)}, c2 \in {BoolL(TRUE), BoolL(FALSE)},
                                                                       b1 \in {<<>>, <<H("[1]")>>}, b2 \in {<<>>, <<H("[2]")>>}, e \in {NoElse, <<>>, <<H("[e]")>>}}
          \cup {<<H("a"), Each("v", a, b, e, 1), H("z")>> : a \in {ArrL(<<>>), ArrL(<<IntL(1), IntL(2)>>)}, b \in {<<>>, <<P(V)>>}, e \in {NoElse, <<>>, <<H("[e]")>>}}
          \cup {<<H("a"), For(Assign("i", IntL(0), 1), Bin("<", Var("i"), IntL(n)), Post("++", Var("i")), b, e, 1), H("z")>> :
                   n \in {0, 2}, b \in {<<>>, <<P(Var("i"))>>}, e \in {NoElse, <<>>, <<H("[e]")>>}}
          \cup {<<H("a"), If(<<Br(BoolL(TRUE), <<If(<<Br(c, <<>>)>>, e, 1)>>)>>, <<>>, 1), H("z")>> : c \in {BoolL(TRUE), BoolL(FALSE)}, e \in {NoElse, <<>>, <<H("[e]")>>}}
          \cup {<<H("a"), Each("v", ArrL(<<IntL(1), IntL(2)>>), <<If(<<Br(IsTwo, <<>>)>>, <<Break(1)>>, 1), P(V)>>, NoElse, 1), H("z")>>}

Cases ==
  CASE Family = "c02empty" -> {[p |-> p, d |-> CondData, tags |-> <<"c02empty">>] : p \in EmptyBodies}
    [] Family = "c02chains" -> {[p |-> Ctx(s, c), d |-> CondData, tags |-> <<"c02chains", c>>] :
                                  s \in Chain1(CondsAll) \cup Chain2(CondsSmall), c \in {"top", "else", "each"}}
    [] Family = "c02chains3q" -> {[p |-> Ctx(s, c), d |-> CondData, tags |-> <<"c02chains3", c>>] :
                                  s \in Chain3(CondsSmall), c \in {"then", "deep", "for", "elseif"}}
    [] Family = "c02chains3" -> {[p |-> Ctx(s, c), d |-> CondData, tags |-> <<"c02chains3", c>>] :
                                  s \in Chain3(CondsSmall) \cup Chain2(CondsAll), c \in Ctxs}
    [] Family = "c02truth" -> {[p |-> p, d |-> CondData, tags |-> <<"c02truth">>] : p \in UNION {TruthProbe(c) : c \in CondsAll}}
    [] Family = "c03each" -> {[p |-> p, d |-> CondData, tags |-> <<"c03each">>] : p \in EachLoops \cup NonArrays}
    [] Family = "c03for" -> {[p |-> p, d |-> CondData, tags |-> <<"c03for">>] : p \in ForLoops}
    [] Family = "c03nested" -> {[p |-> p, d |-> CondData, tags |-> <<"c03nested">>] : p \in Nested \cup Nested3 \cup LoopInFor \cup LoopInHeader}
    [] Family = "c04scopes" -> {[p |-> c.p, d |-> c.d, tags |-> <<"c04scopes">>] : c \in ScopeProgs}
    [] Family = "c04scopesall" -> {[p |-> c.p, d |-> c.d, tags |-> <<"c04scopes">>] : c \in ScopeProgsAll}
    [] Family = "c04loop" -> {[p |-> c.p, d |-> c.d, tags |-> <<"c04loop">>] : c \in LoopProgs}

Init == \E c \in Cases : cas = c /\ EvalInit(c.p, c.d)
Next == Step /\ UNCHANGED cas
Spec == Init /\ [][Next]_vars /\ WF_vars(Next)
Terminates == <>(status # "run")

RECURSIVE Enc(_)
Enc(v) == CASE v.t = "int" -> [t |-> "int", b |-> v.ib, o |-> v.io]
            [] v.t = "float" -> [t |-> "float", n |-> v.fn, e |-> v.fe]
            [] v.t = "str" -> [t |-> "str", v |-> v.s]
            [] v.t = "bool" -> [t |-> "bool", v |-> v.bv]
            [] v.t = "nil" -> [t |-> "nil"]
            [] v.t = "arr" -> [t |-> "arr", v |-> [i \in 1..Len(v.es) |-> Enc(v.es[i])]]
            [] v.t = "obj" -> [t |-> "obj", v |-> [i \in 1..Len(v.ps) |-> [k |-> v.ps[i].pk, v |-> Enc(v.ps[i].pv)]]]
EncData(bs) == [i \in 1..Len(bs) |-> [k |-> bs[i].n, v |-> Enc(bs[i].v)]]

Expectation == CASE status = "done" -> [kind |-> "out", out |-> Output]
                 [] status = "err" -> [kind |-> "err", why |-> why]
                 [] OTHER -> [kind |-> "any"]
Record == [src |-> SrcSeq(prog), data |-> EncData(cas.d), expect |-> Expectation, tags |-> cas.tags]
Gen == (status # "run" /\ Emit_) => PrintT(ToJson(Record))
=============================================================================
