------------------------------ MODULE TwBuiltins ------------------------------
(* Contracts of the built-in functions (C11). *)
EXTENDS TwValues

CallFn(f, recv, args) == Unspec
=============================================================================
