------------------------------ MODULE TwBuiltins ------------------------------
(***************************************************************************)
(* Contracts of the built-in functions (C11, C09).  One operator per       *)
(* built-in stating WHAT it returns, not how: len counts characters,       *)
(* reverse/at/first/last/truncate/capitalize work on characters, slice     *)
(* clamps its bounds, contains is structural equality, round is half away  *)
(* from zero, ...  Every operator is total: a value, Err(..) where C11     *)
(* demands an error (wrong argument kinds, missing arguments), or Unspec   *)
(* where no property fixes the result (negative counts, ...; C09 still     *)
(* requires that the implementation returns).                              *)
(*                                                                         *)
(* Strings that need character-level treatment are CStr(cs): a sequence of *)
(* abstract characters (1-character strings; "$e$" "$u$" "$g$" stand for   *)
(* two-, three- and four-byte UTF-8 characters).                           *)
(***************************************************************************)
EXTENDS TwValues

CStr(cs) == [t |-> "str", cs |-> cs]       \* a string value with its characters exposed
IsC(v) == v.t = "str" /\ "cs" \in DOMAIN v
RECURSIVE CatC(_)
CatC(cs) == IF cs = <<>> THEN "" ELSE cs[1] \o CatC(Tail(cs))
RECURSIVE ShowB(_)
RECURSIVE JoinB(_, _)
JoinB(vs, sep) == IF vs = <<>> THEN "" ELSE IF Len(vs) = 1 THEN ShowB(vs[1]) ELSE ShowB(vs[1]) \o sep \o JoinB(Tail(vs), sep)
ShowB(v) == IF v.t = "str" /\ IsC(v) THEN CatC(v.cs)
            ELSE IF v.t = "arr" THEN JoinB(v.es, ", ")
            ELSE Show(v)
PrintableB(v) == IF v.t = "arr" THEN \A i \in 1..Len(v.es) : (v.es[i].t # "obj" \/ Len(v.es[i].ps) <= 1) /\ ~Bad(v.es[i])
                 ELSE Printable(v)

(* ----------------------------- characters ----------------------------- *)
\* $i$ is the dotless i (2 bytes, capital I: 1 byte), $l$ the long s (2 bytes, capital S: 1 byte)
UpperCh(c) == CASE c = "a" -> "A" [] c = "b" -> "B" [] c = "$e$" -> "$E$" [] c = "$i$" -> "I" [] c = "$l$" -> "S" [] OTHER -> c
LowerCh(c) == CASE c = "A" -> "a" [] c = "B" -> "b" [] c = "$E$" -> "$e$" [] OTHER -> c
RECURSIVE Rev(_)
Rev(s) == IF s = <<>> THEN <<>> ELSE Rev(Tail(s)) \o <<s[1]>>
Map(f(_), s) == [i \in 1..Len(s) |-> f(s[i])]
IsPre(p, s) == Len(p) <= Len(s) /\ SubSeq(s, 1, Len(p)) = p
RECURSIVE HasSub(_, _)
HasSub(s, sub) == IF IsPre(sub, s) THEN TRUE ELSE IF s = <<>> THEN FALSE ELSE HasSub(Tail(s), sub)
RECURSIVE DropWhileIn(_, _)
DropWhileIn(s, cut) == IF s # <<>> /\ s[1] \in cut THEN DropWhileIn(Tail(s), cut) ELSE s
TrimL(s, cut) == DropWhileIn(s, cut)
TrimR(s, cut) == Rev(DropWhileIn(Rev(s), cut))
Chars(s) == {s[i] : i \in 1..Len(s)}
WS == {" ", "\t", "\n", "$r$"}
\* split s at every occurrence of the (non-empty) separator
RECURSIVE SplitAt(_, _, _)
SplitAt(s, sep, cur) == IF s = <<>> THEN <<cur>>
                        ELSE IF IsPre(sep, s) THEN <<cur>> \o SplitAt(SubSeq(s, Len(sep) + 1, Len(s)), sep, <<>>)
                        ELSE SplitAt(Tail(s), sep, Append(cur, s[1]))
RECURSIVE Times(_, _)
Times(s, n) == IF n <= 0 THEN <<>> ELSE s \o Times(s, n - 1)
RECURSIVE Zeros(_)
Zeros(n) == IF n <= 0 THEN "" ELSE "0" \o Zeros(n - 1)
IsDigitC(c) == c \in {"0", "1", "2", "3", "4", "5", "6", "7", "8", "9"}
\* does the character sequence spell a (small) integer, as strconv.Atoi accepts it?
IsIntStr(s) == LET body == IF s # <<>> /\ s[1] \in {"-", "+"} THEN Tail(s) ELSE s IN
               body # <<>> /\ \A i \in 1..Len(body) : IsDigitC(body[i])

(* ------------------------------ arguments ------------------------------ *)
NArgs(args) == Len(args)
IsInt(v) == v.t = "int"
IsStr(v) == v.t = "str"
SmallInt(v) == v.t = "int" /\ IsSmall(v)
ArgErr(w) == Err("argument: " \o w)
\* the characters of a string argument (opaque strings used as arguments are never generated)
ArgC(v) == v.cs

(* ------------------------------- strings ------------------------------- *)
StrFn(f, r, args) ==
  LET s == r.cs  n == Len(args) IN
  CASE f = "len" -> I(Len(s))
    [] f = "upper" -> CStr(Map(UpperCh, s))
    [] f = "lower" -> CStr(Map(LowerCh, s))
    [] f = "capitalize" -> IF s = <<>> THEN CStr(<<>>) ELSE CStr(<<UpperCh(s[1])>> \o Tail(s))
    [] f = "reverse" -> CStr(Rev(s))
    [] f = "raw" -> Unspec                                   \* C10
    [] f \in {"trim", "trimLeft", "trimRight"} ->
         IF n >= 1 /\ ~IsStr(args[1]) THEN ArgErr("first must be a string")
         ELSE LET cut == IF n >= 1 THEN Chars(ArgC(args[1])) ELSE WS IN
              (CASE f = "trim" -> CStr(TrimR(TrimL(s, cut), cut))
                 [] f = "trimLeft" -> CStr(TrimL(s, cut))
                 [] f = "trimRight" -> CStr(TrimR(s, cut)))
    [] f = "split" ->
         IF n >= 1 /\ ~IsStr(args[1]) THEN ArgErr("first must be a string")
         ELSE LET sep == IF n >= 1 THEN ArgC(args[1]) ELSE <<" ">> IN
              IF sep = <<>> THEN Unspec
              ELSE LET parts == SplitAt(s, sep, <<>>) IN A([i \in 1..Len(parts) |-> CStr(parts[i])])
    [] f = "contains" ->
         IF n = 0 THEN ArgErr("requires one argument")
         ELSE IF ~IsStr(args[1]) THEN ArgErr("first must be a string")
         ELSE B(HasSub(s, ArgC(args[1])))
    [] f = "truncate" ->
         IF n = 0 THEN ArgErr("requires one argument")
         ELSE IF ~IsInt(args[1]) THEN ArgErr("first must be an integer")
         ELSE IF n >= 2 /\ ~IsStr(args[2]) THEN ArgErr("second must be a string")
         ELSE IF ~IsSmall(args[1]) THEN (IF args[1].ib = "max" THEN CStr(s) ELSE Unspec)
         ELSE LET lim == args[1].io  ell == IF n >= 2 THEN ArgC(args[2]) ELSE <<".", ".", ".">> IN
              IF lim >= Len(s) THEN CStr(s)
              ELSE IF lim < 0 THEN Unspec                    \* negative count: an error or a defined result (C09)
              ELSE CStr(SubSeq(s, 1, lim) \o ell)
    [] f = "at" ->
         IF n >= 1 /\ ~IsInt(args[1]) THEN ArgErr("first must be an integer")
         ELSE IF n >= 1 /\ ~IsSmall(args[1]) THEN Unspec
         ELSE LET i == IF n >= 1 THEN args[1].io ELSE 0 IN
              IF i >= 0 /\ i < Len(s) THEN CStr(<<s[i + 1]>>)
              ELSE IF i < 0 /\ -i <= Len(s) THEN CStr(<<s[Len(s) + i + 1]>>)
              ELSE Unspec                                    \* out of range: nil or an error, never a crash
    [] f = "first" -> IF s = <<>> THEN Unspec ELSE CStr(<<s[1]>>)
    [] f = "last" -> IF s = <<>> THEN Unspec ELSE CStr(<<s[Len(s)]>>)
    [] f = "repeat" ->
         IF n = 0 THEN ArgErr("requires one argument")
         ELSE IF ~IsInt(args[1]) THEN ArgErr("first must be an integer")
         ELSE IF ~IsSmall(args[1]) \/ args[1].io < 0 THEN Unspec
         ELSE CStr(Times(s, args[1].io))
    [] f = "decimal" ->
         IF n > 2 THEN Unspec
         ELSE IF ~IsIntStr(s) THEN CStr(s)
         ELSE IF n >= 1 /\ ~IsStr(args[1]) THEN ArgErr("first must be a string")
         ELSE IF n = 2 /\ ~IsInt(args[2]) THEN ArgErr("second must be an integer")
         ELSE IF n = 2 /\ (~IsSmall(args[2]) \/ args[2].io < 0) THEN Unspec
         ELSE LET sep == IF n >= 1 THEN CatC(ArgC(args[1])) ELSE "."
                  d == IF n = 2 THEN args[2].io ELSE 2 IN
              IF d = 0 THEN CStr(s) ELSE S(CatC(s) \o sep \o Zeros(d))
    [] OTHER -> Err("no such function")

(* ------------------------------- arrays ------------------------------- *)
\* structural equality of values (contains)
RECURSIVE SameV(_, _)
SameV(a, b) == IF a.t # b.t THEN FALSE
               ELSE CASE a.t = "int" -> IEq(a, b) [] a.t = "float" -> FEq(a, b)
                      [] a.t = "str" -> ShowB(a) = ShowB(b) [] a.t = "bool" -> a.bv = b.bv [] a.t = "nil" -> TRUE
                      [] a.t = "arr" -> Len(a.es) = Len(b.es) /\ \A i \in 1..Len(a.es) : SameV(a.es[i], b.es[i])
                      [] a.t = "obj" -> /\ Len(a.ps) = Len(b.ps)
                                        /\ \A i \in 1..Len(a.ps) : HasKey(b, a.ps[i].pk) /\ SameV(a.ps[i].pv, GetKey(b, a.ps[i].pk))
Clamp(x, lo, hi) == IF x < lo THEN lo ELSE IF x > hi THEN hi ELSE x
ArrFn(f, r, args) ==
  LET es == r.es  n == Len(args)  len == Len(r.es) IN
  CASE f = "len" -> I(len)
    [] f = "reverse" -> A(Rev(es))
    [] f = "join" -> IF n >= 1 /\ ~IsStr(args[1]) THEN ArgErr("first must be a string")
                     ELSE IF \E i \in 1..len : ~PrintableB(es[i]) THEN Unspec
                     ELSE S(JoinB(es, IF n >= 1 THEN CatC(ArgC(args[1])) ELSE ","))
    [] f = "contains" -> IF n = 0 THEN ArgErr("requires one argument")
                         ELSE B(\E i \in 1..len : SameV(es[i], args[1]))
    [] f = "append" -> IF n = 0 THEN ArgErr("requires one argument") ELSE A(es \o args)
    [] f = "prepend" -> IF n = 0 THEN ArgErr("requires one argument") ELSE A(args \o es)
    [] f = "slice" ->
         IF n = 0 THEN ArgErr("requires one argument")
         ELSE IF ~IsInt(args[1]) THEN ArgErr("first must be an integer")
         ELSE IF n >= 2 /\ ~IsInt(args[2]) THEN ArgErr("second must be an integer")
         ELSE IF ~IsSmall(args[1]) \/ (n >= 2 /\ ~IsSmall(args[2])) THEN Unspec
         ELSE LET st == Clamp(args[1].io, 0, len)
                  en == IF n >= 2 /\ args[2].io >= 0 /\ args[2].io <= len THEN args[2].io ELSE len IN
              IF st > en THEN [t |-> "erroror", val |-> A(<<>>)]       \* crossed bounds: nothing, or an error - never elements, never a crash
              ELSE A(SubSeq(es, st + 1, en))
    [] f = "rand" -> [t |-> "oneof", alts |-> IF len = 0 THEN {Nil} ELSE {es[i] : i \in 1..len}]
    [] f = "shuffle" -> [t |-> "perm", of |-> es]
    [] OTHER -> Err("no such function")

(* ------------------------------- numbers ------------------------------- *)
FloorDiv(a, d) == IF a >= 0 THEN a \div d ELSE -((-a + d - 1) \div d)      \* d > 0
FFloor(x) == FloorDiv(x.fn, Pow2(x.fe))
FCeil(x) == -FloorDiv(-x.fn, Pow2(x.fe))
FTrunc(x) == IF x.fn >= 0 THEN FFloor(x) ELSE FCeil(x)
FRound(x) == LET a == AbsI(x.fn)  q == (2 * a + Pow2(x.fe)) \div (2 * Pow2(x.fe)) IN IF x.fn < 0 THEN -q ELSE q
StrOfFloat(x) == IF x.fe = 0 THEN ToString(x.fn) ELSE ShowFloat(x)
FloatFn(f, r, args) ==
  CASE f = "int" -> I(FTrunc(r))
    [] f = "floor" -> I(FFloor(r))
    [] f = "ceil" -> I(FCeil(r))
    [] f = "round" -> I(FRound(r))
    [] f = "abs" -> F(AbsI(r.fn), r.fe)
    [] f = "str" -> S(StrOfFloat(r))
    [] OTHER -> Err("no such function")
RECURSIVE Digits(_)
Digits(n) == IF n < 10 THEN 1 ELSE 1 + Digits(n \div 10)
IntFn(f, r, args) ==
  LET n == Len(args) IN
  CASE f = "float" -> IF IsSmall(r) THEN F(r.io, 0) ELSE Unspec
    [] f = "abs" -> IF IsSmall(r) THEN I(AbsI(r.io)) ELSE IF r.ib = "max" THEN r
                    ELSE IF r.io = 0 THEN Unspec ELSE INeg(r)          \* |min| does not exist in int64
    [] f = "str" -> S(ShowInt(r))
    [] f = "len" -> IF IsSmall(r) THEN I(Digits(AbsI(r.io))) ELSE I(19)
    [] f = "decimal" ->
         IF n > 2 THEN Unspec
         ELSE IF n >= 1 /\ ~IsStr(args[1]) THEN ArgErr("first must be a string")
         ELSE IF n = 2 /\ ~IsInt(args[2]) THEN ArgErr("second must be an integer")
         ELSE IF n = 2 /\ (~IsSmall(args[2]) \/ args[2].io < 0) THEN Unspec
         ELSE LET sep == IF n >= 1 THEN CatC(ArgC(args[1])) ELSE "."
                  d == IF n = 2 THEN args[2].io ELSE 2 IN
              IF d = 0 THEN S(ShowInt(r)) ELSE S(ShowInt(r) \o sep \o Zeros(d))
    [] OTHER -> Err("no such function")
BoolFn(f, r, args) ==
  CASE f = "binary" -> I(IF r.bv THEN 1 ELSE 0)
    [] f = "then" -> IF Len(args) = 0 THEN ArgErr("requires one argument")
                     ELSE IF r.bv THEN args[1] ELSE IF Len(args) >= 2 THEN args[2] ELSE Nil
    [] OTHER -> Err("no such function")

\* dispatch by receiver type (evaluator/func.go); a name that is no built-in of the type is an error (C20 refines this
\* for registered custom functions)
CallFn(f, recv, args) ==
  CASE recv.t = "str" -> IF IsC(recv) THEN StrFn(f, recv, args) ELSE Unspec
    [] recv.t = "arr" -> ArrFn(f, recv, args)
    [] recv.t = "float" -> FloatFn(f, recv, args)
    [] recv.t = "int" -> IntFn(f, recv, args)
    [] recv.t = "bool" -> BoolFn(f, recv, args)
    [] OTHER -> Err("no functions for this type")

StrFns == {"len", "split", "trim", "trimRight", "trimLeft", "upper", "lower", "capitalize", "reverse", "contains",
           "truncate", "decimal", "at", "first", "last", "repeat"}
ArrFns == {"len", "join", "rand", "reverse", "slice", "shuffle", "contains", "append", "prepend"}
FloatFns == {"int", "str", "abs", "ceil", "floor", "round"}
IntFns == {"float", "abs", "str", "len", "decimal"}
BoolFns == {"binary", "then"}
=============================================================================
