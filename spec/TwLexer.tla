------------------------------- MODULE TwLexer -------------------------------
(***************************************************************************)
(* Machine L: the Textwire lexer as a state machine over a byte string.    *)
(*                                                                         *)
(* One Step == one call of lexer.NextToken().  The module is structured    *)
(* like lexer/lexer.go (one disjunct per NextToken branch, one recursive   *)
(* operator per scanning loop) so that every model step has a code         *)
(* location, but its AUTHORITY is the property statements C05/C08/C13/C19: *)
(* every place where the pinned implementation is known to deviate from    *)
(* them is a named switch in Dev (default FALSE = intended design).        *)
(*                                                                         *)
(* Characters are byte codes 0..255.  Offsets are 1-based.  A token is     *)
(* [t, lit, s, e]: type, literal (byte codes), first and last byte offset. *)
(***************************************************************************)
EXTENDS Integers, Sequences, TLC, TwKeywords

CONSTANTS Dev      \* record of BOOLEAN deviation switches, see DevIntended

DevIntended == [RBracesInText       |-> FALSE,  \* F-13 "}}" at the start of a text run is lexed as RBRACES
                CommentEndOr        |-> FALSE,  \* F-14 comment terminator test uses || instead of &&
                NulIsEOF            |-> FALSE,  \* F-16 byte 0 is the end-of-input sentinel
                PastEOF             |-> FALSE,  \* F-19/F-20 unterminated string/comment accepted, cursor runs past the end
                IllegalNotConsumed  |-> FALSE,  \* F-20/F-22 ILLEGAL token is empty and placed before the byte
                EscapePanics        |-> FALSE]  \* F-15 escape directly after a comment end truncates an empty buffer
DevAsCoded  == [RBracesInText |-> TRUE, CommentEndOr |-> TRUE, NulIsEOF |-> TRUE, PastEOF |-> TRUE,
                IllegalNotConsumed |-> TRUE, EscapePanics |-> TRUE]

VARIABLES inp,     \* the input, constant per behaviour
          p,       \* offset of the next unread byte (lexer.pos + 1)
          html,    \* lexer.isHTML
          isDir,   \* lexer.isDirective
          parens,  \* lexer.countDirectiveParentheses
          braces,  \* lexer.countCurlyBraces
          toks,    \* tokens emitted so far
          done     \* EOF / ILLEGAL(terminal) / PANIC emitted

lexvars == <<inp, p, html, isDir, parens, braces, toks, done>>

N == Len(inp)
Ch(i) == IF i >= 1 /\ i <= N THEN inp[i] ELSE 0
AtEnd(i) == i > N \/ (Dev.NulIsEOF /\ Ch(i) = 0)

IsLetter(c) == (c >= 97 /\ c <= 122) \/ (c >= 65 /\ c <= 90)
IsIdent(c)  == IsLetter(c) \/ c = 95
IsLetterWord(c) == IsLetter(c) \/ c = 64
IsNum(c)    == c >= 48 /\ c <= 57
IsWS(c)     == c \in {32, 9, 10, 13}

SimpleTok == [x \in {42, 63, 47, 37, 44, 91, 93, 46, 59, 58} |->
            CASE x = 42 -> "MUL" [] x = 63 -> "QUESTION" [] x = 47 -> "DIV" [] x = 37 -> "MOD"
              [] x = 44 -> "COMMA" [] x = 91 -> "LBRACKET" [] x = 93 -> "RBRACKET"
              [] x = 46 -> "DOT" [] x = 59 -> "SEMI" [] x = 58 -> "COLON"]

Sub(i, j) == IF j < i THEN <<>> ELSE [k \in 1..(j - i + 1) |-> Ch(i + k - 1)]

LookupDirective(w) == IF \E d \in Directives : d.w = w
                      THEN (CHOOSE d \in Directives : d.w = w).t ELSE "ILLEGAL"
LookupIdent(w) == IF \E d \in Keywords : d.w = w
                  THEN (CHOOSE d \in Keywords : d.w = w).t ELSE "IDENT"

\* Is a directive keyword spelled at offset i?  (token.LookupDirective over all prefixes)
KeywordAt(i) == Ch(i) = 64 /\ \E n \in 1..LongestDirective :
                  i + n - 1 <= N /\ LookupDirective(Sub(i, i + n - 1)) # "ILLEGAL"
\* lexer.isDirectiveToken : <<isDirective, escaped>>
DirAt(i) == IF ~KeywordAt(i) THEN <<FALSE, FALSE>>
            ELSE IF i > 1 /\ Ch(i - 1) = 92 THEN <<FALSE, TRUE>> ELSE <<TRUE, FALSE>>
\* lexer.areBracesToken : <<areBraces, escaped>>
BracesAt(i) == LET b == Ch(i) = 123 /\ Ch(i + 1) = 123
                   pb == IF i > 1 THEN Ch(i - 1) ELSE 0
               IN <<b /\ pb # 92, b /\ pb = 92>>

RECURSIVE SkipWS(_)
SkipWS(i) == IF i <= N /\ IsWS(Ch(i)) THEN SkipWS(i + 1) ELSE i

\* lexer.readHTML from i: [e |-> last consumed offset, lit, panic]
RECURSIVE ScanHTML(_, _)
ScanHTML(i, lit) ==
  IF AtEnd(i) THEN [e |-> i - 1, lit |-> lit, panic |-> FALSE]
  ELSE LET d == DirAt(i)  b == BracesAt(i) IN
       IF b[1] \/ d[1] THEN [e |-> i - 1, lit |-> lit, panic |-> FALSE]
       ELSE IF (d[2] \/ b[2]) /\ lit = <<>>
            THEN IF Dev.EscapePanics THEN [e |-> i - 1, lit |-> lit, panic |-> TRUE]
                 ELSE ScanHTML(i + 1, <<Ch(i)>>)   \* the backslash belongs to an earlier token: nothing to remove
       ELSE LET l2 == IF d[2] \/ b[2] THEN SubSeq(lit, 1, Len(lit) - 1) ELSE lit
            IN ScanHTML(i + 1, Append(l2, Ch(i)))

\* lexer.skipComment from i (first byte after "{{"): offset after the terminator, or 0 when unterminated.
\* As coded (PastEOF) an unterminated comment "ends" two bytes past the end of the input.
RECURSIVE SkipComment(_)
SkipComment(i) ==
  IF AtEnd(i) THEN (IF Dev.PastEOF THEN i + 2 ELSE 0)
  ELSE IF Dev.CommentEndOr
       THEN (IF ~(Ch(i) = 45 /\ Ch(i + 1) = 45) THEN SkipComment(i + 1)
             ELSE IF Ch(i + 2) = 125 \/ Ch(i + 3) = 125 THEN i + 4
             ELSE SkipComment(i + 2))
  ELSE \* intended: the comment ends at the first "--}}"
       IF Ch(i) = 45 /\ Ch(i + 1) = 45 /\ Ch(i + 2) = 125 /\ Ch(i + 3) = 125 /\ i + 3 <= N THEN i + 4
       ELSE SkipComment(i + 1)

\* lexer.readDirective from i (s = offset of '@'): [t, e]
RECURSIVE ScanDir(_, _)
ScanDir(i, s) ==
  IF ~IsLetterWord(Ch(i)) THEN [t |-> LookupDirective(Sub(s, i - 1)), e |-> i - 1]
  ELSE LET tok == LookupDirective(Sub(s, i))
           long == (tok = "ELSE" /\ Ch(i + 1) = 105 /\ Ch(i + 2) = 102)
                \/ (tok \in {"BREAK", "CONTINUE"} /\ Ch(i + 1) = 73 /\ Ch(i + 2) = 102)
       IN IF ~long /\ tok # "ILLEGAL" THEN [t |-> tok, e |-> i] ELSE ScanDir(i + 1, s)

\* lexer.readString loop: k = offset at the loop head, q = quote. Returns the offset of the closing quote,
\* or N + 1 (AtEnd) when the string is not terminated.
RECURSIVE ScanStr(_, _)
ScanStr(k, q) ==
  IF AtEnd(k) THEN k
  ELSE IF ~AtEnd(k + 1) /\ Ch(k + 1) = q /\ Ch(k) # 92 THEN k + 1
  ELSE ScanStr(k + 1, q)

RECURSIVE Unesc(_, _)
Unesc(s, q) == IF Len(s) = 0 THEN <<>>
               ELSE IF Len(s) >= 2 /\ s[1] = 92 /\ s[2] = q THEN <<q>> \o Unesc(SubSeq(s, 3, Len(s)), q)
               ELSE <<s[1]>> \o Unesc(Tail(s), q)

RECURSIVE ScanIdent(_)
ScanIdent(i) == IF IsIdent(Ch(i)) \/ IsNum(Ch(i)) THEN ScanIdent(i + 1) ELSE i - 1

RECURSIVE ScanNum(_, _)
ScanNum(i, isInt) ==
  IF IsNum(Ch(i)) THEN ScanNum(i + 1, isInt)
  ELSE IF Ch(i) = 46 /\ IsNum(Ch(i + 1)) THEN ScanNum(i + 1, FALSE)
  ELSE [e |-> i - 1, int |-> isInt]

Tok(t, lit, s, e) == [t |-> t, lit |-> lit, s |-> s, e |-> e]

Emit(tk, np) == /\ toks' = Append(toks, tk)
                /\ p' = np

Same4 == UNCHANGED <<html, isDir, parens, braces>>

Two(c, d, t2, t1, i) == IF Ch(i + 1) = d THEN Emit(Tok(t2, <<c, d>>, i, i + 1), i + 2)
                        ELSE Emit(Tok(t1, <<c>>, i, i), i + 1)

IsCodeStart(c) == c \in DOMAIN SimpleTok \/ c \in {123, 125, 40, 41, 34, 39, 60, 62, 33, 45, 43, 61}
                  \/ IsIdent(c) \/ IsNum(c)

(* ---- lexer.embeddedCodeToken at offset i (whitespace already skipped) ---- *)
CodeToken(i) ==
  LET c == Ch(i) IN
  CASE c \in DOMAIN SimpleTok -> Emit(Tok(SimpleTok[c], <<c>>, i, i), i + 1) /\ Same4 /\ done' = FALSE
    [] c = 123 -> /\ Emit(Tok("LBRACE", <<c>>, i, i), i + 1) /\ braces' = braces + 1
                  /\ UNCHANGED <<html, isDir, parens>> /\ done' = FALSE
    [] c = 125 -> /\ Emit(Tok("RBRACE", <<c>>, i, i), i + 1) /\ braces' = braces - 1
                  /\ UNCHANGED <<html, isDir, parens>> /\ done' = FALSE
    [] c = 40 -> /\ Emit(Tok("LPAREN", <<c>>, i, i), i + 1)
                 /\ parens' = IF isDir THEN parens + 1 ELSE parens
                 /\ UNCHANGED <<html, isDir, braces>> /\ done' = FALSE
    [] c = 41 -> LET np == IF isDir THEN parens - 1 ELSE parens
                     close == isDir /\ np = 0 IN
                 /\ Emit(Tok("RPAREN", <<c>>, i, i), i + 1)
                 /\ parens' = np
                 /\ isDir' = IF close THEN FALSE ELSE isDir
                 /\ html' = IF close THEN TRUE ELSE html
                 /\ UNCHANGED braces /\ done' = FALSE
    [] c \in {34, 39} ->
         /\ Same4
         /\ IF ~AtEnd(i + 1) /\ Ch(i + 1) = c
            THEN Emit(Tok("STR", <<>>, i, i + 1), i + 2) /\ done' = FALSE
            ELSE LET j == ScanStr(i + 1, c) IN   \* closing quote, or the end of the input
                 IF AtEnd(j) /\ ~Dev.PastEOF
                 THEN Emit(Tok("ILLEGAL", Sub(i, N), i, N), N + 1) /\ done' = TRUE   \* unterminated string (C08)
                 ELSE Emit(Tok("STR", Unesc(Sub(i + 1, j - 1), c), i, j), j + 1) /\ done' = FALSE
    [] c = 60 -> Two(60, 61, "LTHAN_EQ", "LTHAN", i) /\ Same4 /\ done' = FALSE
    [] c = 62 -> Two(62, 61, "GTHAN_EQ", "GTHAN", i) /\ Same4 /\ done' = FALSE
    [] c = 33 -> Two(33, 61, "NOT_EQ", "NOT", i) /\ Same4 /\ done' = FALSE
    [] c = 45 -> Two(45, 45, "DEC", "SUB", i) /\ Same4 /\ done' = FALSE
    [] c = 43 -> Two(43, 43, "INC", "ADD", i) /\ Same4 /\ done' = FALSE
    [] c = 61 -> Two(61, 61, "EQ", "ASSIGN", i) /\ Same4 /\ done' = FALSE
    [] IsIdent(c) -> LET e == ScanIdent(i) IN
                     Emit(Tok(LookupIdent(Sub(i, e)), Sub(i, e), i, e), e + 1) /\ Same4 /\ done' = FALSE
    [] IsNum(c) -> LET r == ScanNum(i, TRUE) IN
                   Emit(Tok(IF r.int THEN "INT" ELSE "FLOAT", Sub(i, r.e), i, r.e), r.e + 1)
                   /\ Same4 /\ done' = FALSE
    [] OTHER -> \* an illegal byte ends the token stream (the parser stops at the first ILLEGAL token)
                /\ (IF Dev.IllegalNotConsumed THEN Emit(Tok("ILLEGAL", <<c>>, i, i - 1), i)
                                              ELSE Emit(Tok("ILLEGAL", <<c>>, i, i), i + 1))
                /\ Same4 /\ done' = TRUE

(* ---- skipping of leading comments: NextToken recurses after skipComment ---- *)
\* [i, h, open]: offset and html flag after skipping any number of comments; open = an unterminated comment starts at i
RECURSIVE AfterComments(_, _)
AfterComments(i0, h) ==
  LET i == IF h THEN i0 ELSE SkipWS(i0) IN
  IF ~AtEnd(i) /\ Ch(i) = 123 /\ Ch(i + 1) = 123 /\ Ch(i + 2) = 45 /\ Ch(i + 3) = 45 /\ i + 3 <= N
  THEN LET k == SkipComment(i + 2) IN
       IF k = 0 THEN [i |-> i, h |-> h, open |-> TRUE] ELSE AfterComments(k, h)       \* a comment leaves the mode as it was
  ELSE [i |-> i, h |-> h, open |-> FALSE]

Step ==
  /\ ~done
  /\ UNCHANGED inp
  /\ LET a == AfterComments(p, html)
         i == a.i
         h == a.h
     IN
     IF a.open THEN      \* unterminated comment: an error token up to the end of the input (C08)
        /\ Emit(Tok("ILLEGAL", Sub(i, N), i, N), N + 1) /\ done' = TRUE /\ html' = h
        /\ UNCHANGED <<isDir, parens, braces>>
     ELSE IF AtEnd(i) THEN
        /\ Emit(Tok("EOF", <<>>, i, i), i) /\ done' = TRUE /\ html' = h
        /\ UNCHANGED <<isDir, parens, braces>>
     ELSE IF Ch(i) = 123 /\ Ch(i + 1) = 123 THEN
        /\ Emit(Tok("LBRACES", <<123, 123>>, i, i + 1), i + 2) /\ html' = FALSE
        /\ UNCHANGED <<isDir, parens, braces, done>>
     ELSE IF Ch(i) = 125 /\ Ch(i + 1) = 125 /\ braces = 0 /\ (~h \/ Dev.RBracesInText) THEN
        /\ Emit(Tok("RBRACES", <<125, 125>>, i, i + 1), i + 2) /\ html' = TRUE
        /\ UNCHANGED <<isDir, parens, braces, done>>
     ELSE IF ~h THEN
        CodeToken(i)
     ELSE IF DirAt(i)[1] THEN
        LET r == ScanDir(i, i)
            opt == r.t = "SLOT" /\ Ch(r.e + 1) = 40
            nopar == r.t \in {"ELSE", "END", "BREAK", "CONTINUE", "SLOT"}
            d == opt \/ ~nopar
        IN /\ Emit(Tok(r.t, Sub(i, r.e), i, r.e), r.e + 1)
           /\ isDir' = d /\ html' = ~d
           /\ UNCHANGED <<parens, braces, done>>
     ELSE
        LET r == ScanHTML(i, <<>>) IN
        IF r.panic THEN /\ Emit(Tok("PANIC", <<>>, i, i), i) /\ done' = TRUE
                        /\ UNCHANGED <<html, isDir, parens, braces>>
        ELSE /\ Emit(Tok("HTML", r.lit, i, r.e), r.e + 1) /\ html' = h
             /\ UNCHANGED <<isDir, parens, braces, done>>

LexInit(input) == /\ inp = input
                  /\ p = 1 /\ html = TRUE /\ isDir = FALSE /\ parens = 0 /\ braces = 0
                  /\ toks = <<>> /\ done = FALSE

(***************************************************************************)
(* Ground truth for positions (C13, C19): derived from the bytes, not from *)
(* the implementation's five counters, which are what is being checked.    *)
(***************************************************************************)
RECURSIVE PosFrom(_, _, _, _)
PosFrom(k, i, line, col) == IF k >= i THEN <<line, col>>
                            ELSE IF Ch(k) = 10 THEN PosFrom(k + 1, i, line + 1, 0)
                            ELSE PosFrom(k + 1, i, line, col + 1)
Pos(i) == PosFrom(1, i, 0, 0)          \* <<line, col>>, zero-based, of 1-based offset i
ErrLine(tk) == Pos(tk.e)[1] + 1        \* the 1-based line on which the token ends (C13)

(***************************************************************************)
(* Properties of the token stream (C19), stated over any token sequence ts *)
(* for input inp so that they can be evaluated on the model's tokens and   *)
(* on tokens recorded from the implementation.                             *)
(***************************************************************************)
Terminal(t) == t \in {"EOF", "ILLEGAL", "PANIC"}
SpanOK(ts) == \A k \in 1..Len(ts) : ts[k].t = "EOF" \/ (1 <= ts[k].s /\ ts[k].s <= ts[k].e /\ ts[k].e <= N)
Ordered(ts) == \A k \in 1..Len(ts) - 1 : ts[k].e < ts[k + 1].s
\* the text an HTML token at [s, e] must carry: the slice minus each backslash that escapes "{{" or a keyword
RECURSIVE TextOf(_, _)
TextOf(i, e) == IF i > e THEN <<>>
                ELSE IF Ch(i) = 92 /\ i < e /\ (KeywordAt(i + 1) \/ (Ch(i + 1) = 123 /\ Ch(i + 2) = 123))
                     THEN TextOf(i + 1, e)
                ELSE <<Ch(i)>> \o TextOf(i + 1, e)
\* own text: the bytes between start and end are the token's own text (quotes included for strings,
\* escape backslashes included for text)
OwnText(ts) == \A k \in 1..Len(ts) :
   LET tk == ts[k] IN
   CASE tk.t = "EOF" -> TRUE
     [] tk.t = "STR" -> /\ Ch(tk.s) \in {34, 39} /\ Ch(tk.e) = Ch(tk.s) /\ tk.e > tk.s
                        /\ tk.lit = Unesc(Sub(tk.s + 1, tk.e - 1), Ch(tk.s))
     [] tk.t = "HTML" -> tk.lit = TextOf(tk.s, tk.e)
     [] tk.t = "ILLEGAL" -> tk.e >= tk.s     \* an error token covers at least the offending byte
     [] OTHER -> tk.lit = Sub(tk.s, tk.e)
\* gaps between tokens hold only whitespace inside code, or comments
RECURSIVE CommentsOnly(_, _)
CommentsOnly(i, j) ==       \* is inp[i..j] a sequence of complete comments?
  IF i > j THEN TRUE
  ELSE IF Ch(i) = 123 /\ Ch(i + 1) = 123 /\ Ch(i + 2) = 45 /\ Ch(i + 3) = 45
       THEN LET k == SkipComment(i + 2) IN k # 0 /\ k - 1 <= j /\ CommentsOnly(k, j)
  ELSE FALSE
RECURSIVE BlankOrComment(_, _)
BlankOrComment(i, j) ==     \* is inp[i..j] a sequence of whitespace and complete comments?
  IF i > j THEN TRUE
  ELSE IF IsWS(Ch(i)) THEN BlankOrComment(i + 1, j)
  ELSE IF Ch(i) = 123 /\ Ch(i + 1) = 123 /\ Ch(i + 2) = 45 /\ Ch(i + 3) = 45
       THEN LET k == SkipComment(i + 2) IN k # 0 /\ k - 1 <= j /\ BlankOrComment(k, j)
  ELSE FALSE
\* Whitespace is skipped only in code mode, i.e. after a token that is not text and before any comment (a comment
\* switches the lexer back to text mode, where whitespace belongs to a text token).  So a gap after a text token
\* holds comments only, and any other gap is whitespace followed by comments.
RECURSIVE WSThenComments(_, _)
WSThenComments(i, j) == IF i > j THEN TRUE
                        ELSE IF IsWS(Ch(i)) THEN WSThenComments(i + 1, j)
                        ELSE CommentsOnly(i, j)
HasComment(i, j) == \E k \in i..j : Ch(k) = 123 /\ Ch(k + 1) = 123 /\ Ch(k + 2) = 45 /\ Ch(k + 3) = 45
\* (C19: "the gaps between tokens hold only whitespace inside code or comments". After a text token there is no code, so
\* the gap holds comments only; before a text token that follows a non-text token, white space alone would belong to the text.)
GapOK(a, b, i, j) == IF a = "HTML" THEN CommentsOnly(i, j)
                     ELSE BlankOrComment(i, j) /\ (b = "HTML" => (i > j \/ HasComment(i, j)))
GapsBlank(ts) == /\ \A k \in 1..Len(ts) - 1 : GapOK(ts[k].t, ts[k + 1].t, ts[k].e + 1, ts[k + 1].s - 1)
                 /\ Len(ts) > 0 => CommentsOnly(1, ts[1].s - 1)
EOFAtEnd(ts) == \A k \in 1..Len(ts) : ts[k].t = "EOF" => (k = Len(ts) /\ ts[k].s = N + 1 /\ ts[k].e = N + 1)
Tiling(ts) == SpanOK(ts) /\ Ordered(ts) /\ OwnText(ts) /\ GapsBlank(ts) /\ EOFAtEnd(ts)

(***************************************************************************)
(* C05 at lexer level.                                                     *)
(***************************************************************************)
HasOpen == \E i \in 1..N : (Ch(i) = 123 /\ Ch(i + 1) = 123) \/ KeywordAt(i)
HasNul  == \E i \in 1..N : Ch(i) = 0
\* text with no "{{" and no '@'+keyword is one text token carrying exactly the input
Passthrough == (done /\ ~HasOpen /\ N > 0 /\ ~(Dev.NulIsEOF /\ HasNul))
                  => toks = <<Tok("HTML", inp, 1, N), Tok("EOF", <<>>, N + 1, N + 1)>>

\* model-level invariants (checked by TLC on every state of every input of the family)
InvTiling   == Tiling(toks)
InvNoPanic  == \A k \in 1..Len(toks) : toks[k].t # "PANIC"
InvCursor   == p <= N + 1 /\ (done => p = N + 1 \/ toks[Len(toks)].t = "ILLEGAL")
Progress    == [][done' \/ p' > p]_lexvars
=============================================================================
