------------------------------ MODULE MC_Loader ------------------------------
(* Model checking of the loader machine (TwLoader): every tree over three names and five file kinds, every order  *)
(* in which files can be picked.  AllOrNothing (C18) and Deterministic (C14) are invariants.                        *)
EXTENDS TwLoader

H_(s) == Html(s, 1)
Kinds == {"page", "layoutpage", "nolayout", "syntax", "badinsert", "layout"}
FileOf(kind) ==
  CASE kind = "page" -> Tpl(NoUse, <<H_("p")>>)
    [] kind = "layoutpage" -> Tpl(Ref("c"), <<InsertE("t", StrL("x"), 1)>>)      \* uses file c as its layout
    [] kind = "nolayout" -> Tpl(Ref("ghost"), <<>>)
    [] kind = "syntax" -> BadFile("@if(")
    [] kind = "badinsert" -> Tpl(Ref("c"), <<InsertE("nope", StrL("x"), 1)>>)
    [] kind = "layout" -> Tpl(NoUse, <<H_("l"), Reserve("t", 1)>>)
Trees == {[n \in {"a", "b", "c"} |-> FileOf(k[n])] : k \in [{"a", "b", "c"} -> Kinds]}

MCNameOrder == <<"a", "b", "c">>
\* machine E is idle in this model
Idle == prog = <<>> /\ ctrl = <<>> /\ env = <<<<>>>> /\ out = <<>> /\ status = "done" /\ why = "" /\ eline = 0
Init == \E t \in Trees : LoadInit(t) /\ Idle
Next == LoadNext /\ UNCHANGED evars
Spec == Init /\ [][Next]_<<kvars, evars>> /\ WF_<<kvars, evars>>(Next)
=============================================================================
