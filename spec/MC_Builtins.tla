----------------------------- MODULE MC_Builtins -----------------------------
(* C11: every built-in x its whole small domain.  Each case is rendered as                      *)
(*   {{ r = <receiver> }}{{ r.f(<args>) }}|{{ r }}                                               *)
(* so that the result and the (unchanged) receiver are both observed.                            *)
EXTENDS TwBuiltins, Json, FiniteSets

CONSTANTS Family, Emit_
VARIABLES cas, rec
vars == <<cas, rec>>

RECURSIVE SeqsUpTo(_, _)
SeqsUpTo(Alph, n) == IF n = 0 THEN {<<>>} ELSE LET R == SeqsUpTo(Alph, n - 1) IN R \cup {Append(q, c) : q \in R, c \in Alph}

\* ---- literal source of a value ----
RECURSIVE LitV(_)
RECURSIVE LitList(_)
LitList(vs) == IF vs = <<>> THEN "" ELSE IF Len(vs) = 1 THEN LitV(vs[1]) ELSE LitV(vs[1]) \o ", " \o LitList(Tail(vs))
LitV(v) == CASE v.t = "int" -> (IF v.ib = "min" THEN "(-9223372036854775807 - 1" \o (IF v.io = 0 THEN "" ELSE " + " \o ToString(v.io)) \o ")"
                                ELSE ShowInt(v))
             [] v.t = "float" -> ShowFloat(v)
             [] v.t = "str" -> "\"" \o ShowB(v) \o "\""
             [] v.t = "bool" -> IF v.bv THEN "true" ELSE "false"
             [] v.t = "nil" -> "nil"
             [] v.t = "arr" -> "[" \o LitList(v.es) \o "]"
             [] v.t = "obj" -> IF Len(v.ps) = 0 THEN "{}" ELSE "{" \o v.ps[1].pk \o ": " \o LitV(v.ps[1].pv) \o "}"

CharsB == {"a", "B", "$e$", "$u$", "$g$", " "}
Strs(n) == {CStr(s) : s \in SeqsUpTo(CharsB, n)}
Elems == {I(1), I(2), S("a"), A(<<I(1)>>), O(<<[pk |-> "k", pv |-> I(1)]>>), Nil}
Arrs(n) == {A(s) : s \in SeqsUpTo(Elems, n)}
Ints == {I(n) : n \in -4..4} \cup {I(10), I(-10), I(123), IMax(0), IMin(0), IMin(1)}
Floats == {NormF(n, 2) : n \in -11..11} \cup {NormF(5, 1), NormF(-5, 1), NormF(7, 1), NormF(-7, 1), F(100, 0), NormF(1, 3), NormF(-1, 3)}

C(s) == CStr(s)
NoArg == {<<>>}
IntArgs(lo, hi) == {<<I(n)>> : n \in lo..hi}

StrCases(n) ==
     {[r |-> r, f |-> f, a |-> <<>>] : r \in Strs(n), f \in {"len", "upper", "lower", "capitalize", "reverse", "first", "last",
                                                             "trim", "trimLeft", "trimRight", "split", "at", "decimal"}}
\cup {[r |-> r, f |-> "at", a |-> a] : r \in Strs(n), a \in IntArgs(-4, 4)}
\cup {[r |-> r, f |-> "truncate", a |-> a] : r \in Strs(n), a \in IntArgs(-1, 4) \cup {<<I(1), C(<<"$u$">>)>>, <<I(0), C(<<>>)>>, <<I(2), C(<<"!", "!">>)>>, <<IMax(0)>>}}
\cup {[r |-> r, f |-> "repeat", a |-> a] : r \in Strs(n), a \in IntArgs(-1, 3)}
\cup {[r |-> r, f |-> f, a |-> a] : r \in {C(<<>>), C(<<"a">>), C(<<"a", "B">>), C(<<"a", "$e$">>), C(<<"a", "B", "a", "B">>), C(<<"$g$">>)},
                                     f \in {"repeat", "at", "truncate"}, a \in {<<IMax(0)>>, <<IMin(0)>>, <<IMax(-1)>>, <<IMax(-2)>>, <<IMin(1)>>}}
\cup {[r |-> r, f |-> "decimal", a |-> <<C(<<".">>), x>>] : r \in {C(<<"1">>), I(1)}, x \in {IMax(0), IMin(0)}}
\cup {[r |-> A(<<I(1), I(2)>>), f |-> "slice", a |-> a] : a \in {<<IMax(0)>>, <<IMin(0)>>, <<I(0), IMax(0)>>, <<IMin(0), IMin(0)>>, <<IMax(0), I(1)>>}}
\cup {[r |-> r, f |-> f, a |-> <<c>>] : r \in Strs(n), f \in {"trim", "trimLeft", "trimRight"}, c \in {C(<<"a">>), C(<<" ", "a">>), C(<<"$e$">>), C(<<>>)}}
\cup {[r |-> r, f |-> "split", a |-> <<c>>] : r \in Strs(n), c \in {C(<<"a">>), C(<<" ">>), C(<<"$e$">>), C(<<"a", "B">>)}}
\* longer strings that mix 1-, 2-, 3- and 4-byte characters: character positions are not byte positions
MixedStrs == {C(<<"$i$", "a", "$e$">>), C(<<"$l$", "$l$", "B">>), C(<<"$e$", "a", "B">>), C(<<"a", "$u$", "B", "$g$">>), C(<<"$g$", "$e$", "a", " ", "$u$">>), C(<<"a", "B", "$e$">>)}
MixedCases == {[r |-> r, f |-> f, a |-> <<>>] : r \in MixedStrs, f \in {"len", "upper", "lower", "capitalize", "reverse", "first", "last", "trim", "split"}}
         \cup {[r |-> r, f |-> "at", a |-> a] : r \in MixedStrs, a \in IntArgs(-6, 6)}
         \cup {[r |-> r, f |-> "truncate", a |-> a] : r \in MixedStrs, a \in IntArgs(-1, 6)}
         \cup {[r |-> r, f |-> "contains", a |-> <<c>>] : r \in MixedStrs, c \in {C(<<"a">>), C(<<"$e$", "a">>), C(<<"B", "$g$">>), C(<<"$u$">>), C(<<"$g$", "a">>)}}
         \cup {[r |-> r, f |-> "split", a |-> <<c>>] : r \in MixedStrs, c \in {C(<<"a">>), C(<<"$e$">>), C(<<" ">>)}}
         \cup {[r |-> r, f |-> "repeat", a |-> <<I(2)>>] : r \in MixedStrs}
\* the default cut set of trim / trimLeft / trimRight is tab, space, LF, CR - other characters Unicode calls white space
\* ($n$ a no-break space, $f$ a form feed) stay
EdgeWs == {C(<<"$n$", "a", "$n$">>), C(<<"$f$", " ", "a", " ", "$f$">>), C(<<" ", "$n$", "a">>), C(<<"$n$">>)}
EdgeCases == {[r |-> r, f |-> f, a |-> <<>>] : r \in EdgeWs, f \in {"trim", "trimLeft", "trimRight", "len"}}
ContainsCases(n, m) == {[r |-> r, f |-> "contains", a |-> <<c>>] : r \in Strs(n), c \in Strs(m)}
NumStrs == {C(<<"-">>), C(<<"+">>), C(<<".">>), C(<<"-", ".">>), C(<<"1", "-">>),
            C(<<"1", "2">>), C(<<"-", "5">>), C(<<"1", ".", "5">>), C(<<"a", "b">>), C(<<>>), C(<<"0">>), C(<<"+", "7">>), C(<<"1", " ">>)}
DecArgs == {<<>>, <<C(<<",">>)>>, <<C(<<>>)>>} \cup {<<C(<<".">>), I(d)>> : d \in -1..3} \cup {<<C(<<"$u$">>), I(1)>>}
DecCases == {[r |-> r, f |-> "decimal", a |-> a] : r \in NumStrs \cup {I(0), I(12), I(-5), IMax(0)}, a \in DecArgs}

ArrCases(n) ==
     {[r |-> r, f |-> f, a |-> <<>>] : r \in Arrs(n), f \in {"len", "reverse", "join", "rand", "shuffle"}}
\cup {[r |-> r, f |-> "join", a |-> <<c>>] : r \in Arrs(n), c \in {C(<<"-">>), C(<<>>), C(<<"$e$", " ">>)}}
\cup {[r |-> r, f |-> f, a |-> <<x>>] : r \in Arrs(n), f \in {"contains", "append", "prepend"}, x \in Elems \cup {I(3), A(<<>>), A(<<I(2)>>), O(<<>>), B(TRUE), S(""),
                                               \* values that PRINT like an element but are not structurally equal to it
                                               A(<<S("1")>>), O(<<[pk |-> "k", pv |-> S("1")]>>), A(<<A(<<I(1)>>)>>), S("1"), F(1, 0), S("1, 2"), A(<<I(1), I(2)>>)}}
\cup {[r |-> r, f |-> f, a |-> <<I(8), S("z")>>] : r \in Arrs(n), f \in {"append", "prepend"}}
IntArrs == {A([i \in 1..n |-> I(i * 10)]) : n \in 0..4}
SliceCases == {[r |-> r, f |-> "slice", a |-> <<I(s)>>] : r \in IntArrs, s \in -2..6}
         \cup {[r |-> r, f |-> "slice", a |-> <<I(s), I(e)>>] : r \in IntArrs, s \in -2..6, e \in -2..6}
NumCases == {[r |-> r, f |-> f, a |-> <<>>] : r \in Ints, f \in {"float", "abs", "str", "len", "decimal"}}
       \cup {[r |-> r, f |-> f, a |-> <<>>] : r \in Floats, f \in FloatFns}
       \cup {[r |-> B(b), f |-> "binary", a |-> <<>>] : b \in BOOLEAN}
       \cup {[r |-> B(b), f |-> "then", a |-> a] : b \in BOOLEAN, a \in {<<I(1)>>, <<S("y"), S("n")>>, <<Nil, I(0)>>, <<A(<<I(1)>>), O(<<>>)>>}}
\* wrong argument kinds and missing arguments: C11 demands an error
WrongCases ==
     {[r |-> C(<<"a", "B">>), f |-> f, a |-> a] : f \in {"contains", "trim", "trimLeft", "trimRight", "split"}, a \in {<<I(1)>>, <<Nil>>, <<A(<<>>)>>, <<B(TRUE)>>}}
\cup {[r |-> C(<<"a", "B">>), f |-> f, a |-> a] : f \in {"truncate", "at", "repeat"}, a \in {<<C(<<"x">>)>>, <<Nil>>, <<F(1, 1)>>, <<A(<<I(1)>>)>>}}
\cup {[r |-> C(<<"a", "B">>), f |-> "truncate", a |-> <<I(1), I(1)>>], [r |-> C(<<"1">>), f |-> "decimal", a |-> <<I(1)>>],
      [r |-> C(<<"1">>), f |-> "decimal", a |-> <<C(<<".">>), C(<<"x">>)>>], [r |-> I(1), f |-> "decimal", a |-> <<I(1)>>],
      [r |-> I(1), f |-> "decimal", a |-> <<C(<<".">>), F(1, 0)>>]}
\cup {[r |-> C(<<"a">>), f |-> f, a |-> <<>>] : f \in {"contains", "truncate", "repeat"}}
\cup {[r |-> A(<<I(1), I(2)>>), f |-> f, a |-> <<>>] : f \in {"contains", "append", "prepend", "slice"}}
\cup {[r |-> A(<<I(1), I(2)>>), f |-> "join", a |-> <<I(1)>>], [r |-> A(<<I(1), I(2)>>), f |-> "slice", a |-> <<S("x")>>],
      [r |-> A(<<I(1), I(2)>>), f |-> "slice", a |-> <<I(0), S("x")>>], [r |-> A(<<I(1), I(2)>>), f |-> "slice", a |-> <<Nil>>],
      [r |-> B(TRUE), f |-> "then", a |-> <<>>]}
\* a wrong kind is an error whatever the receiver and the other arguments are (empty receivers, bounds at / past the end)
\cup {[r |-> r, f |-> "slice", a |-> <<I(st), bad>>] : r \in {A(<<>>), A(<<I(1), I(2)>>)}, st \in {-1, 0, 2, 3}, bad \in {S("x"), Nil, F(1, 1), B(TRUE)}}
\cup {[r |-> A(<<>>), f |-> "join", a |-> <<I(1)>>], [r |-> A(<<>>), f |-> "slice", a |-> <<S("x")>>]}
\cup {[r |-> C(<<>>), f |-> f, a |-> a] : f \in {"contains", "trim", "trimLeft", "trimRight", "split"}, a \in {<<I(1)>>, <<Nil>>}}
\cup {[r |-> C(<<>>), f |-> f, a |-> a] : f \in {"truncate", "at", "repeat"}, a \in {<<C(<<"x">>)>>, <<Nil>>}}
\cup {[r |-> C(<<"a">>), f |-> "truncate", a |-> <<I(n), I(1)>>] : n \in {0, 1, 5}}
\cup {[r |-> C(<<"1">>), f |-> "decimal", a |-> <<C(<<".">>), bad>>] : bad \in {Nil, B(TRUE), F(1, 0)}}
\* a name that is no built-in of the receiver's type (and no custom function) is an error
\cup {[r |-> r, f |-> f, a |-> <<>>] : r \in {C(<<"a">>), A(<<I(1)>>), I(1), F(1, 1), B(TRUE)}, f \in {"nope", "float", "binary", "join", "upper"} }

\* C20: the plain Go value a custom function receives for each template value (int64, float64, string, bool, nil,
\* []any, map[string]any, recursively); the receiver of an integer function is a Go int
RECURSIVE Desc(_)
RECURSIVE DescList(_)
RECURSIVE DescPairs(_)
DescList(vs) == IF vs = <<>> THEN "" ELSE IF Len(vs) = 1 THEN Desc(vs[1]) ELSE Desc(vs[1]) \o "," \o DescList(Tail(vs))
DescPairs(ps) == IF ps = <<>> THEN "" ELSE ps[1].pk \o ":" \o Desc(ps[1].pv) \o (IF Len(ps) = 1 THEN "" ELSE "," \o DescPairs(Tail(ps)))
Desc(v) == CASE v.t = "int" -> "int64(" \o ShowInt(v) \o ")"
             [] v.t = "float" -> "float64(" \o StrOfFloat(v) \o ")"
             [] v.t = "str" -> "string(" \o ShowB(v) \o ")"
             [] v.t = "bool" -> (IF v.bv THEN "bool(true)" ELSE "bool(false)")
             [] v.t = "nil" -> "nil"
             [] v.t = "arr" -> "[]any{" \o DescList(v.es) \o "}"
             [] v.t = "obj" -> "map{" \o DescPairs(v.ps) \o "}"       \* keys in sorted order (the families use sorted keys)
RecvDesc(v) == IF v.t = "int" THEN "int(" \o ShowInt(v) \o ")" ELSE Desc(v)
ConvVals == {I(3), I(-7), IMax(0), IMin(0), F(5, 1), F(-3, 0), C(<<"a", "$e$">>), C(<<>>), B(TRUE), B(FALSE), Nil, A(<<>>),

             A(<<I(1), S("x"), Nil>>), A(<<A(<<I(2), A(<<>>)>>), O(<<[pk |-> "k", pv |-> F(1, 1)]>>)>>), O(<<>>),
             O(<<[pk |-> "a", pv |-> I(1)]>>)}
ConvRecvs == {C(<<"a", "B">>), C(<<>>), A(<<I(1), A(<<S("n")>>), Nil>>), A(<<>>), I(5), I(-5), IMax(0), F(5, 1), F(4, 0), B(TRUE), B(FALSE)}
ConvCases == {[r |-> r, f |-> "rec", a |-> <<x>>] : r \in ConvRecvs, x \in ConvVals}
        \cup {[r |-> r, f |-> "rec", a |-> <<x, y, Nil>>] : r \in {C(<<"a", "B">>), I(5)}, x \in ConvVals, y \in {I(3), O(<<[pk |-> "a", pv |-> I(1)]>>)}}
        \cup {[r |-> r, f |-> "rec", a |-> <<>>] : r \in ConvRecvs}
\* the same through the data map: receiver and arguments are Go values passed as data; markup and character references
\* are content like any other (a literal's text is escaped when it is evaluated, so literals are not used for these)
MarkupVals == {S("&amp;&lt;b&gt;&#39;"), S("<b>&'q'"), A(<<S("&lt;"), A(<<S("&amp;")>>)>>), O(<<[pk |-> "k", pv |-> S("<&amp;>")]>>)}
MarkupRecvs == {S("&amp;<i>"), A(<<S("&lt;"), S("<")>>)}
RECURSIVE EncB(_)
EncB(v) == CASE v.t = "int" -> [t |-> "int", b |-> v.ib, o |-> v.io]
             [] v.t = "float" -> [t |-> "float", n |-> v.fn, e |-> v.fe]
             [] v.t = "str" -> [t |-> "str", v |-> ShowB(v)]
             [] v.t = "bool" -> [t |-> "bool", v |-> v.bv]
             [] v.t = "nil" -> [t |-> "nil"]
             [] v.t = "arr" -> [t |-> "arr", v |-> [i \in 1..Len(v.es) |-> EncB(v.es[i])]]
             [] v.t = "obj" -> [t |-> "obj", v |-> [i \in 1..Len(v.ps) |-> [k |-> v.ps[i].pk, v |-> EncB(v.ps[i].pv)]]]
ConvDataCases == {[r |-> r, f |-> "rec", a |-> <<x>>] : r \in ConvRecvs \cup MarkupRecvs, x \in (ConvVals \ {Nil}) \cup MarkupVals}
RECURSIVE DataArgNames(_, _)
DataArgNames(a, i) == IF i > Len(a) THEN "" ELSE "a" \o ToString(i) \o (IF i = Len(a) THEN "" ELSE ", ") \o DataArgNames(a, i + 1)
ConvDataRecord(c) == [src |-> "{{ r.rec(" \o DataArgNames(c.a, 1) \o ") }}",
                      data |-> <<[k |-> "r", v |-> EncB(c.r)]>> \o [i \in 1..Len(c.a) |-> [k |-> "a" \o ToString(i), v |-> EncB(c.a[i])]],
                      recv |-> RecvDesc(c.r), args |-> [i \in 1..Len(c.a) |-> Desc(c.a[i])], t |-> c.r.t, tags |-> <<"conv", "data", c.r.t>>]
ConvRecord(c) == [src |-> "{{ r = " \o LitV(c.r) \o " }}{{ r.rec(" \o LitList(c.a) \o ") }}", recv |-> RecvDesc(c.r), args |-> [i \in 1..Len(c.a) |-> Desc(c.a[i])],
                  t |-> c.r.t, tags |-> <<"conv", c.r.t>>]

\* purity beyond one call: two calls on one receiver, and a call on a derived value, then everything is printed again
TwiceFns == {"append", "prepend", "slice", "reverse", "join"}
TwiceSrc(r, f, a1, a2) == "{{ r = " \o LitV(r) \o " }}{{ y = r." \o f \o "(" \o LitList(a1) \o ") }}{{ z = r." \o f \o "(" \o LitList(a2) \o ") }}{{ y }}|{{ z }}|{{ r }}"
ChainSrc(r, s, e, f, a) == "{{ r = " \o LitV(r) \o " }}{{ y = r.slice(" \o ToString(s) \o ", " \o ToString(e) \o ")." \o f \o "(" \o LitList(a) \o ") }}{{ y }}|{{ r }}"
ShowOr(v) == IF Bad(v) \/ ~PrintableB(v) THEN "?" ELSE ShowB(v)
IntArr(n) == A([i \in 1..n |-> I(i)])
TwiceCases == {[src |-> TwiceSrc(IntArr(n), f, a1, a2),
                out |-> ShowB(CallFn(f, IntArr(n), a1)) \o "|" \o ShowB(CallFn(f, IntArr(n), a2)) \o "|" \o ShowB(IntArr(n))] :
                 n \in 0..6, f \in {"append", "prepend"}, a1 \in {<<I(8)>>}, a2 \in {<<I(9)>>, <<I(9), I(7)>>}}
         \cup {[src |-> ChainSrc(IntArr(n), s, e, f, <<I(9)>>),
                out |-> ShowB(CallFn(f, CallFn("slice", IntArr(n), <<I(s), I(e)>>), <<I(9)>>)) \o "|" \o ShowB(IntArr(n))] :
                 n \in 2..5, s \in 0..1, e \in 1..3, f \in {"append", "prepend", "reverse"}}
TwiceRecord(c) == [src |-> c.src, data |-> <<>>, expect |-> [kind |-> "out", out |-> c.out], tags |-> <<"c11", "twice">>]

\* "the receiver and arguments are unchanged afterwards": the arguments come from variables, the call is made twice and
\* receiver and arguments are printed again (an argument modified in place shows in the second result and in its variable)
RECURSIVE ArgAssigns(_, _)
ArgAssigns(a, i) == IF i > Len(a) THEN "" ELSE "{{ a" \o ToString(i) \o " = " \o LitV(a[i]) \o " }}" \o ArgAssigns(a, i + 1)
RECURSIVE ArgNames(_, _)
ArgNames(a, i) == IF i > Len(a) THEN "" ELSE "a" \o ToString(i) \o (IF i = Len(a) THEN "" ELSE ", ") \o ArgNames(a, i + 1)
RECURSIVE ArgPrints(_, _)
ArgPrints(a, i) == IF i > Len(a) THEN "" ELSE "|{{ a" \o ToString(i) \o " }}" \o ArgPrints(a, i + 1)
RECURSIVE ArgShows(_, _)
ArgShows(a, i) == IF i > Len(a) THEN "" ELSE "|" \o ShowB(a[i]) \o ArgShows(a, i + 1)
ArgVarSrc(c) == "{{ r = " \o LitV(c.r) \o " }}" \o ArgAssigns(c.a, 1) \o "{{ r." \o c.f \o "(" \o ArgNames(c.a, 1) \o ") }}|{{ r." \o c.f \o "("
                \o ArgNames(c.a, 1) \o ") }}|{{ r }}" \o ArgPrints(c.a, 1)
ArgVarOK(c) == Len(c.a) >= 1 /\ PrintableB(c.r) /\ \A i \in 1..Len(c.a) : c.a[i].t # "nil" /\ PrintableB(c.a[i])
ArgVarCases == {c \in StrCases(2) \cup ContainsCases(2, 1) \cup DecCases \cup ArrCases(2) \cup SliceCases \cup NumCases : ArgVarOK(c)}
ArgVarExpect(c) == LET v == CallFn(c.f, c.r, c.a) IN
                   CASE v.t = "err" -> [kind |-> "err", why |-> v.why]
                     [] v.t \in {"unspec", "oneof", "perm", "erroror"} -> [kind |-> "any"]
                     [] OTHER -> IF PrintableB(v) THEN [kind |-> "out", out |-> ShowB(v) \o "|" \o ShowB(v) \o "|" \o ShowB(c.r) \o ArgShows(c.a, 1)]
                                 ELSE [kind |-> "any"]
ArgVarRecord(c) == [src |-> ArgVarSrc(c), data |-> <<>>, expect |-> ArgVarExpect(c), tags |-> <<"c11", "argvars", c.r.t, c.f>>]

\* purity across DIFFERENT functions: one receiver (a variable, a loop variable), a call, another function's call, the
\* first call again, the receiver printed - every result is the one the function gives on the original receiver
Cl(f, a) == [f |-> f, a |-> a]
SeqStrCalls == {Cl("reverse", <<>>), Cl("at", <<I(0)>>), Cl("at", <<I(-1)>>), Cl("first", <<>>), Cl("last", <<>>), Cl("truncate", <<I(1)>>), Cl("len", <<>>),
                Cl("upper", <<>>), Cl("lower", <<>>), Cl("capitalize", <<>>), Cl("repeat", <<I(2)>>), Cl("trim", <<>>), Cl("split", <<C(<<"B">>)>>),
                Cl("contains", <<C(<<"a">>)>>), Cl("str", <<>>)}
SeqArrCalls == {Cl("reverse", <<>>), Cl("slice", <<I(1)>>), Cl("append", <<I(9)>>), Cl("prepend", <<I(9)>>), Cl("len", <<>>), Cl("join", <<C(<<"-">>)>>), Cl("contains", <<I(1)>>)}
SeqCases == {[r |-> r, c1 |-> c1, c2 |-> c2, loopvar |-> lv] : r \in {C(<<"a", "$e$", "B">>), C(<<" ", "a", "B", "$u$">>)}, c1 \in SeqStrCalls, c2 \in SeqStrCalls, lv \in BOOLEAN}
       \cup {[r |-> r, c1 |-> c1, c2 |-> c2, loopvar |-> lv] : r \in {IntArr(3), A(<<S("x"), S("y")>>)}, c1 \in SeqArrCalls, c2 \in SeqArrCalls, lv \in BOOLEAN}
SeqCall(c) == "{{ r." \o c.f \o "(" \o LitList(c.a) \o ") }}"
SeqRecord(c) == LET v1 == CallFn(c.c1.f, c.r, c.c1.a)  v2 == CallFn(c.c2.f, c.r, c.c2.a)
                    body == SeqCall(c.c1) \o "|" \o SeqCall(c.c2) \o "|" \o SeqCall(c.c1) \o "|{{ r }}"
                    good == \A v \in {v1, v2} : ~Bad(v) /\ v.t \notin {"oneof", "perm", "erroror"} /\ PrintableB(v) IN
                [src |-> IF c.loopvar THEN "@each(r in [" \o LitV(c.r) \o "])" \o body \o "@end" ELSE "{{ r = " \o LitV(c.r) \o " }}" \o body, data |-> <<>>,
                 expect |-> IF good THEN [kind |-> "out", out |-> ShowB(v1) \o "|" \o ShowB(v2) \o "|" \o ShowB(v1) \o "|" \o ShowB(c.r)] ELSE [kind |-> "any"],
                 tags |-> <<"c11", "seqcalls", c.r.t, c.c1.f, c.c2.f>>]
\* contains is structural equality at every depth (lists in lists, objects in lists)
DeepContains == {[r |-> r, f |-> "contains", a |-> <<x>>] :
                   r \in {A(<<A(<<A(<<I(1)>>)>>), I(3)>>), A(<<A(<<I(1), A(<<I(2)>>)>>), A(<<>>)>>), A(<<O(<<[pk |-> "k", pv |-> A(<<I(1)>>)]>>), A(<<O(<<>>)>>)>>)},
                   x \in {A(<<A(<<I(1)>>)>>), A(<<I(1), A(<<I(2)>>)>>), A(<<>>), A(<<A(<<I(2)>>)>>), O(<<[pk |-> "k", pv |-> A(<<I(1)>>)]>>), A(<<O(<<>>)>>), I(3)}}
Cases == CASE Family = "twice" -> TwiceCases
           [] Family = "seqcalls" -> SeqCases
           [] Family = "argvars" -> ArgVarCases
           [] Family = "conv" -> ConvCases
           [] Family = "convdata" -> ConvDataCases
           [] Family = "str2" -> StrCases(2) \cup ContainsCases(2, 1) \cup DecCases \cup MixedCases \cup EdgeCases
           [] Family = "str3" -> StrCases(3) \cup ContainsCases(3, 2) \cup DecCases \cup MixedCases \cup EdgeCases
           [] Family = "arr2" -> ArrCases(2) \cup SliceCases
           [] Family = "arr3" -> ArrCases(3) \cup SliceCases
           [] Family = "num" -> NumCases \cup WrongCases \cup DeepContains

\* all orderings of a short sequence (shuffle)
RECURSIVE Perms(_)
Perms(s) == IF Len(s) <= 1 THEN {s}
            ELSE UNION {{<<s[i]>> \o p : p \in Perms(SubSeq(s, 1, i - 1) \o SubSeq(s, i + 1, Len(s)))} : i \in 1..Len(s)}

Src(c) == "{{ r = " \o LitV(c.r) \o " }}{{ r." \o c.f \o "(" \o LitList(c.a) \o ") }}|{{ r }}"
Result(c) == CallFn(c.f, c.r, c.a)
Tail_(c) == "|" \o ShowB(c.r)
Expect(c) ==
  LET v == Result(c) IN
  IF ~PrintableB(c.r) THEN [kind |-> "any"]
  ELSE CASE v.t = "err" -> [kind |-> "err", why |-> v.why]
         [] v.t = "unspec" -> [kind |-> "any"]
         [] v.t = "oneof" -> [kind |-> "oneof", outs |-> {ShowB(x) \o Tail_(c) : x \in v.alts}]
         [] v.t = "perm" -> [kind |-> "oneof", outs |-> {JoinB(p, ", ") \o Tail_(c) : p \in Perms(v.of)}]
         [] v.t = "erroror" -> [kind |-> "errorout", out |-> ShowB(v.val) \o Tail_(c), why |-> "crossed bounds"]
         [] OTHER -> IF PrintableB(v) THEN [kind |-> "out", out |-> ShowB(v) \o Tail_(c)] ELSE [kind |-> "any"]
\* C11 also says: a wrong receiver type for a name is an error even when the name exists for another type
IsMiss(c) == (c.r.t = "str" /\ c.f \notin StrFns \cup {"raw"}) \/ (c.r.t = "arr" /\ c.f \notin ArrFns)
             \/ (c.r.t = "int" /\ c.f \notin IntFns) \/ (c.r.t = "float" /\ c.f \notin FloatFns) \/ (c.r.t = "bool" /\ c.f \notin BoolFns)
Record(c) == [src |-> Src(c), data |-> <<>>, expect |-> Expect(c), tags |-> <<"c11", c.r.t, c.f>>]

\* design-level lemmas over the whole small domain
LemmaLenRev == \A r \in Strs(3) : Len(StrFn("reverse", r, <<>>).cs) = Len(r.cs) /\ StrFn("reverse", StrFn("reverse", r, <<>>), <<>>) = r
LemmaSlice == \A c \in SliceCases : LET v == Result(c) IN v.t = "arr" => \E k \in 0..Len(c.r.es) : IsPre(v.es, SubSeq(c.r.es, k + 1, Len(c.r.es)))
LemmaCase == \A r \in Strs(2) : StrFn("lower", StrFn("upper", r, <<>>), <<>>) = StrFn("lower", r, <<>>)
ASSUME LemmaLenRev /\ LemmaSlice /\ LemmaCase

Init == cas \in Cases /\ rec = [src |-> ""]
Next == rec.src = "" /\ rec' = (IF Family = "conv" THEN ConvRecord(cas) ELSE IF Family = "convdata" THEN ConvDataRecord(cas) ELSE IF Family = "twice" THEN TwiceRecord(cas)
                                      ELSE IF Family = "argvars" THEN ArgVarRecord(cas) ELSE IF Family = "seqcalls" THEN SeqRecord(cas) ELSE Record(cas)) /\ UNCHANGED cas
Spec == Init /\ [][Next]_vars
Total == (rec.src # "" /\ Family \notin {"conv", "convdata"}) => rec.expect.kind \in {"out", "err", "any", "oneof", "errorout"}
Gen == (rec.src # "" /\ Emit_) => PrintT(ToJson(rec))
=============================================================================
