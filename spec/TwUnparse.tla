------------------------------- MODULE TwUnparse -------------------------------
(* Source text of statements (the inverse of machine P for the statement forms the families use). *)
EXTENDS TwEval

(* ------------------------------ unparsing ------------------------------ *)
Ex(e) == Source(e, "sp")
RECURSIVE Src(_)
RECURSIVE SrcSeq(_)
\* what is written between the slot bodies of a component use (and before the first, after the last): nothing, or - by
\* overriding SlotSep in a .cfg - line breaks, indentation, comments. None of it belongs to a slot body or to the
\* component file, so none of it may show in the output (C07).
SlotSep == ""
\* how the argument object of a component use is written: single spaces, or (ArgLay <- "tight" in a .cfg) no blank that is
\* not needed, so that the closing braces of nested objects touch
ArgLay == "sp"
RECURSIVE SrcSlots(_)
SrcSlots(sl) == IF sl = <<>> THEN ""
                ELSE SlotSep \o (IF sl[1].name = "" THEN "@slot" ELSE "@slot(\"" \o sl[1].name \o "\")") \o SrcSeq(sl[1].body) \o "@end"
                     \o SrcSlots(Tail(sl))
SrcSeq(ss) == IF ss = <<>> THEN "" ELSE Src(ss[1]) \o SrcSeq(Tail(ss))
RECURSIVE SrcAlts(_, _)
SrcAlts(cs, i) == IF i > Len(cs) THEN ""
                  ELSE "@elseif(" \o Ex(cs[i].c) \o ")" \o SrcSeq(cs[i].body) \o SrcAlts(cs, i + 1)
ElseSrc(s) == IF HasElse(s) THEN "@else" \o SrcSeq(s.els) ELSE ""
Src(s) ==
  CASE s.k = "html" -> s.s
    [] s.k = "print" -> "{{ " \o Ex(s.e) \o " }}"
    [] s.k = "assign" -> "{{ " \o s.n \o " = " \o Ex(s.e) \o " }}"
    [] s.k = "if" -> "@if(" \o Ex(s.cs[1].c) \o ")" \o SrcSeq(s.cs[1].body) \o SrcAlts(s.cs, 2) \o ElseSrc(s) \o "@end"
    [] s.k = "each" -> "@each(" \o s.var \o " in " \o Ex(s.arr) \o ")" \o SrcSeq(s.body) \o ElseSrc(s) \o "@end"
    [] s.k = "for" -> "@for(" \o (IF s.init.k = "noinit" THEN "" ELSE s.init.n \o " = " \o Ex(s.init.e)) \o "; " \o Ex(s.cond) \o "; "
                          \o (IF s.post.k = "nopost" THEN "" ELSE IF s.post.k = "assign" THEN s.post.n \o " = " \o Ex(s.post.e) ELSE Ex(s.post)) \o ")"
                      \o SrcSeq(s.body) \o ElseSrc(s) \o "@end"
    [] s.k = "break" -> "@break"
    [] s.k = "continue" -> "@continue"
    [] s.k = "breakif" -> "@breakIf(" \o Ex(s.c) \o ")"
    [] s.k = "continueif" -> "@continueIf(" \o Ex(s.c) \o ")"
    [] s.k = "reserve" -> "@reserve(\"" \o s.name \o "\")"
    [] s.k = "use" -> "@use(\"" \o Written(s.ref) \o "\")"
    [] s.k = "insert" -> IF s.form = "block" THEN "@insert(\"" \o s.name \o "\")" \o SrcSeq(s.body) \o "@end"
                         ELSE "@insert(\"" \o s.name \o "\", " \o Ex(s.e) \o ")"
    [] s.k = "slot" -> IF s.name = "" THEN "@slot" ELSE "@slot(\"" \o s.name \o "\")"
    [] s.k = "comp" -> "@component(\"" \o Written(s.name) \o "\"" \o (IF s.args = <<>> THEN "" ELSE ", " \o Source(ObjL(s.args), ArgLay)) \o ")"
                       \o (IF s.slots = <<>> THEN "" ELSE SrcSlots(s.slots) \o SlotSep \o "@end")

=============================================================================
