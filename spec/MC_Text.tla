------------------------------- MODULE MC_Text -------------------------------
(***************************************************************************)
(* C10: string literals are HTML-escaped on output, raw() is the exact     *)
(*      opt-out.  Literals are sequences of abstract characters (1-char    *)
(*      strings; "$e$" stands for a non-ASCII character).                  *)
(* C13: an error names the line on which the offending construct's token   *)
(*      ends.  Sources are built from segments whose newline count is      *)
(*      known by construction, so the expected line is ground truth.       *)
(***************************************************************************)
EXTENDS Integers, Sequences, TLC, Json, FiniteSets

CONSTANTS Family, Emit_

VARIABLES cas, rec
vars == <<cas, rec>>

RECURSIVE Cat(_)
Cat(cs) == IF cs = <<>> THEN "" ELSE cs[1] \o Cat(Tail(cs))
RECURSIVE SeqsUpTo(_, _)
SeqsUpTo(S, n) == IF n = 0 THEN {<<>>} ELSE LET R == SeqsUpTo(S, n - 1) IN R \cup {Append(s, c) : s \in R, c \in S}

(* ================================ C10 ================================ *)
\* (a backslash is an ordinary character of a literal unless the quote character follows it; a literal that ENDS in a
\* backslash cannot be written - the backslash would take the closing quote - and is left out)
Alpha10 == {"<", ">", "&", ";", "#", "\"", "'", "a", "3", "4", "9", "x", " ", "$e$", ",", "\\"}
\* the specification of escaping (C10): no raw angle brackets, every '&' becomes an entity, quotes stay as written
EscCh(c) == CASE c = "<" -> <<"&", "l", "t", ";">> [] c = ">" -> <<"&", "g", "t", ";">>
              [] c = "&" -> <<"&", "a", "m", "p", ";">> [] OTHER -> <<c>>
RECURSIVE Escape(_)
Escape(l) == IF l = <<>> THEN <<>> ELSE EscCh(l[1]) \o Escape(Tail(l))
\* generic HTML unescaping restricted to the entities that can occur
RECURSIVE Unescape(_)
Pre(s, p) == Len(s) >= Len(p) /\ SubSeq(s, 1, Len(p)) = p
Unescape(s) == IF s = <<>> THEN <<>>
               ELSE IF Pre(s, <<"&", "l", "t", ";">>) THEN <<"<">> \o Unescape(SubSeq(s, 5, Len(s)))
               ELSE IF Pre(s, <<"&", "g", "t", ";">>) THEN <<">">> \o Unescape(SubSeq(s, 5, Len(s)))
               ELSE IF Pre(s, <<"&", "a", "m", "p", ";">>) THEN <<"&">> \o Unescape(SubSeq(s, 6, Len(s)))
               ELSE IF Pre(s, <<"&", "#", "3", "4", ";">>) THEN <<"\"">> \o Unescape(SubSeq(s, 6, Len(s)))
               ELSE IF Pre(s, <<"&", "#", "3", "9", ";">>) THEN <<"'">> \o Unescape(SubSeq(s, 6, Len(s)))
               ELSE <<s[1]>> \o Unescape(Tail(s))
\* design-level lemmas over every literal of the family
NoRawAngle(l) == \A i \in 1..Len(Escape(l)) : Escape(l)[i] \notin {"<", ">"}
AmpIsEntity(l) == LET e == Escape(l) IN
                  \A i \in 1..Len(e) : e[i] = "&" => \/ Pre(SubSeq(e, i, Len(e)), <<"&", "l", "t", ";">>)
                                                     \/ Pre(SubSeq(e, i, Len(e)), <<"&", "g", "t", ";">>)
                                                     \/ Pre(SubSeq(e, i, Len(e)), <<"&", "a", "m", "p", ";">>)
QuotesKept(l) == Len(SelectSeq(l, LAMBDA c : c \in {"\"", "'"})) = Len(SelectSeq(Escape(l), LAMBDA c : c \in {"\"", "'"}))
RoundTrip10(l) == Unescape(Escape(l)) = l

\* source form of a literal in quote style q
QuoteCh(c, q) == IF c = q THEN <<"\\", c>> ELSE <<c>>
RECURSIVE Quoted(_, _)
Quoted(l, q) == IF l = <<>> THEN <<>> ELSE QuoteCh(l[1], q) \o Quoted(Tail(l), q)
LitSrc(l, q) == q \o Cat(Quoted(l, q)) \o q
Interesting10 == {<<"&", "#", "3", "4", ";">>, <<"&", "#", "3", "9", ";">>, <<"&", "a", "&", "#", "3", "4", ";">>,
                  <<"<", "&", "#", "3", "9", ";", ">">>, <<"&", "&", "#", "3", "4", ";", ";">>,
                  <<"\"", "&", "#", "3", "4", ";", "'">>, <<"<", "a", " ", "x", "=", "'", "3", "'", ">">>,
                  <<"&", "l", "t", ";">>, <<"&", "a", "m", "p", ";", "l", "t", ";">>, <<"$e$", "<", "$e$">>,
                  <<"a", "\\", "\\", "b">>, <<"\\", "\\", "\\", "\\", "s">>, <<"<", "\\", "\\", "\"", ">">>, <<"\\", "'", "\\", "\\", "x">>}
\* usage contexts of C10: [src, out] for literal source L, escaped text E and raw text R
Ctx10(L, E, R) ==
  {[src |-> "{{ " \o L \o " }}", out |-> E, c |-> "print"],
   [src |-> "{{ " \o L \o " + \"x\" }}", out |-> E \o "x", c |-> "concat-l"],
   [src |-> "{{ 'x' + " \o L \o " }}", out |-> "x" \o E, c |-> "concat-r"],
   [src |-> "{{ v = " \o L \o " }}[{{ v }}]", out |-> "[" \o E \o "]", c |-> "assign"],
   [src |-> "{{ [" \o L \o "][0] }}", out |-> E, c |-> "array-elem"],
   [src |-> "{{ [" \o L \o ", \"z\"] }}", out |-> E \o ", z", c |-> "array-print"],
   [src |-> "{{ [\"z\", " \o L \o "] }}", out |-> "z, " \o E, c |-> "array-print-last"],
   [src |-> "{{ v = " \o L \o " }}{{ (v + \"x\").len() > 999 ? 1 : \"\" }}{{ (v + v).len() > 999 ? 1 : \"\" }}[{{ v }}]", out |-> "[" \o E \o "]", c |-> "stored-after-concat"],
   [src |-> "@each(s in [" \o L \o "]){{ (s + \"!\").len() > 999 ? 1 : \"\" }}@end@each(s in [" \o L \o ", " \o L \o "]){{ t = s + \"!\" }}@end{{ v = " \o L \o " }}{{ w = v + \"y\" }}{{ v.raw() }}", out |-> R, c |-> "raw-after-concat"],
   [src |-> "{{ [" \o L \o "] }}", out |-> E, c |-> "array-print-alone"],
   [src |-> "{{ {k: " \o L \o "}.k }}", out |-> E, c |-> "object-value"],
   [src |-> "@if(true){{ " \o L \o " }}@end", out |-> E, c |-> "if-body"],
   [src |-> "{{ true ? " \o L \o " : 'n' }}", out |-> E, c |-> "ternary"],
   [src |-> "@each(s in [" \o L \o "]){{ s }}@end", out |-> E, c |-> "each"],
   [src |-> "{{ " \o L \o ".raw() }}", out |-> R, c |-> "raw"],
   [src |-> "{{ v = " \o L \o " }}{{ v.raw() }}", out |-> R, c |-> "raw-var"],
   [src |-> "{{ [" \o L \o "][0].raw() }}", out |-> R, c |-> "raw-elem"],
   [src |-> "{{ (" \o L \o " + 'x').raw() }}", out |-> R \o "x", c |-> "raw-concat"],
   \* raw() gives the original text and leaves the stored literal as it was: used again it is escaped again, raw() again
   \* gives the same text again
   [src |-> "{{ v = " \o L \o " }}{{ v.raw() }}{{ v.raw() }}", out |-> R \o R, c |-> "raw-twice"],
   [src |-> "{{ v = " \o L \o " }}{{ v.raw().len() > 999 ? 1 : \"\" }}[{{ v }}]", out |-> "[" \o E \o "]", c |-> "print-after-raw"],
   [src |-> "{{ v = [" \o L \o "] }}{{ w = v[0] }}{{ w.raw().len() > 999 ? 1 : \"\" }}[{{ v[0] }}]", out |-> "[" \o E \o "]", c |-> "print-after-raw-alias"]}
\* a backslash before the OTHER quote character is an ordinary byte of the literal
OtherQuote10 == {[src |-> "{{ \"it\\'s\" }}", out |-> "it\\'s", c |-> "raw", lit |-> "it\\'s"],
                 [src |-> "{{ 'say \\\"hi\\\"' }}", out |-> "say \\\"hi\\\"", c |-> "raw", lit |-> "say \\\"hi\\\""],
                 [src |-> "{{ \"it\\'s\".raw() }}", out |-> "it\\'s", c |-> "raw", lit |-> "it\\'s"],
                 [src |-> "{{ v = 'a\\\"b' }}{{ v }}|{{ [v][0] }}", out |-> "a\\\"b|a\\\"b", c |-> "raw", lit |-> "a\\\"b"]}
\* two literals in one rendering, one spelling the escaped text of the other ("<b>" and "&lt;b&gt;"): each keeps its own meaning
\* whichever is evaluated first
PairLits == {<<"<", "a", ">">>, <<"&">>, <<"&", "l", "t", ";">>, <<"<">>, <<"a", "&", "a">>, <<"&", "a", "m", "p", ";">>, <<"x", ">", "3">>}
Pairs10 == UNION {LET l2 == Escape(l)  L1 == LitSrc(l, q)  L2 == LitSrc(l2, q) IN
                  {[src |-> "{{ " \o L2 \o ".len() > 999 ? 1 : \"\" }}{{ " \o L1 \o ".raw() }}", out |-> Cat(l), c |-> "raw", lit |-> Cat(l)],
                   [src |-> "{{ v = " \o L2 \o " }}{{ w = " \o L1 \o " }}{{ w.raw() }}", out |-> Cat(l), c |-> "raw", lit |-> Cat(l)],
                   [src |-> "{{ " \o L1 \o ".raw().len() > 999 ? 1 : \"\" }}{{ " \o L2 \o " }}", out |-> Cat(Escape(l2)), c |-> "print", lit |-> Cat(l2)],
                   [src |-> "{{ " \o L1 \o ".len() > 999 ? 1 : \"\" }}{{ " \o L2 \o ".raw() }}", out |-> Cat(l2), c |-> "raw", lit |-> Cat(l2)],
                   [src |-> "{{ " \o L2 \o ".raw().len() > 999 ? 1 : \"\" }}{{ " \o L1 \o " }}", out |-> Cat(Escape(l)), c |-> "print", lit |-> Cat(l)],
                   [src |-> "{{ [" \o L1 \o ", " \o L2 \o "][1].raw() }}", out |-> Cat(l2), c |-> "raw", lit |-> Cat(l2)],
                   [src |-> "{{ [" \o L2 \o ".raw(), " \o L1 \o ".raw()][1] }}", out |-> Cat(l), c |-> "raw", lit |-> Cat(l)]} : l \in PairLits, q \in {"\"", "'"}}
Writable(l) == l = <<>> \/ l[Len(l)] # "\\"
Cases10(lits) == OtherQuote10 \cup Pairs10 \cup UNION {{[src |-> c.src, out |-> c.out, c |-> c.c, lit |-> Cat(l)] : c \in Ctx10(LitSrc(l, q), Cat(Escape(l)), Cat(l))} : l \in {x \in lits : Writable(x)}, q \in {"\"", "'"}}
\* The verdict for escaped contexts uses C10's own predicates (no raw angle bracket, every & starts an entity, quotes as
\* written, unescaping gives the literal back), so that another entity spelling is not an alarm; `esc` is the
\* specification's rendering, kept for diagnosis. raw() contexts must give exactly the original text.
IsRaw(c) == c \in {"raw", "raw-var", "raw-elem", "raw-concat", "raw-twice", "raw-after-concat"}
Expect10(c) == IF IsRaw(c.c) THEN [kind |-> "out", out |-> c.out] ELSE [kind |-> "escaped", out |-> c.out, lit |-> c.lit]

(* ================================ C13 ================================ *)
Seg(s, n) == [s |-> s, nl |-> n]
Pre13 == {Seg("a\nb\n", 2), Seg("text ", 0), Seg("{{ \"x\ny\" }}", 1), Seg("{{-- c\n\n --}}", 2), Seg("r$r$\n", 1),
          Seg("{{\n1\n+\n2\n}}", 4), Seg("@if(true)\nA\n@end\n", 3), Seg("@each(q in [1,2])\n{{ q }}\n@end", 2),
          Seg("{{ 'p\n\nq' }}\n", 3), Seg("\\{{ x\n", 1), Seg("@if(false)\nA\n@elseif(true)\nB\n@else\nC\n@end", 6),
          Seg("$e$$u$\n", 1), Seg("@if(false){{ zz + ob.nope + 1 / 0 }}{{ \"s\".nope() }}@end\n", 1), Seg("{{ [1,\n2] }}", 1), Seg("\n\n\n", 3),
          \* CR LF line ends inside code (a {{ }} block, directive arguments, a literal)
          Seg("{{ 1 +$r$\n2 }}$r$\n", 2), Seg("@if(true$r$\n)x@end", 1), Seg("{{ [1,$r$\n2,$r$\n3] }}", 2)}
\* (one preamble mentions the names used by the faults earlier, in a branch that is not taken)
\* single-line faults; rt = raised at run time (must be reached), otherwise at parse time
Faults13 == {[s |-> "{{ zz }}", rt |-> TRUE, k |-> "undefined-identifier", dl |-> 0],
             [s |-> "{{ 1 + \"a\" }}", rt |-> TRUE, k |-> "mistyped-operand", dl |-> 0],
             [s |-> "{{ {zz} }}", rt |-> TRUE, k |-> "undefined-identifier", dl |-> 0],
             [s |-> "{{ {a: 1, zz}.a }}", rt |-> TRUE, k |-> "undefined-identifier", dl |-> 0],
             [s |-> "{{ [1, zz][0] }}", rt |-> TRUE, k |-> "undefined-identifier", dl |-> 0],
             [s |-> "{{ \"s\".nope() }}", rt |-> TRUE, k |-> "unknown-function", dl |-> 0],
             [s |-> "{{ ob.nope }}", rt |-> TRUE, k |-> "unknown-property", dl |-> 0],
             [s |-> "{{ 1 / 0 }}", rt |-> TRUE, k |-> "division-by-zero", dl |-> 0],
             [s |-> "{{ 7 % 0 }}", rt |-> TRUE, k |-> "modulo-by-zero", dl |-> 0],
             [s |-> "{{ 1 ~ 2 }}", rt |-> FALSE, k |-> "illegal-character", dl |-> 0],
             \* an illegal character where a directive expects a name: the statement parser steps over the token
             [s |-> "@each(# in [1])x@end", rt |-> FALSE, k |-> "illegal-character", dl |-> 0],
             [s |-> "@slot(#)", rt |-> FALSE, k |-> "illegal-character", dl |-> 0],
             [s |-> "@insert(#, 1)", rt |-> FALSE, k |-> "illegal-character", dl |-> 0],
             [s |-> "@each(\n#\n in [1])x@end", rt |-> FALSE, k |-> "illegal-character", dl |-> 1],
             [s |-> "{{ 1 + }}", rt |-> FALSE, k |-> "unexpected-token", dl |-> 0],
             [s |-> "{{ }}", rt |-> FALSE, k |-> "empty-braces", dl |-> 0],
             [s |-> "{{ x = }}", rt |-> FALSE, k |-> "unexpected-token", dl |-> 0],
             [s |-> "@each(x on ob)", rt |-> FALSE, k |-> "unexpected-token", dl |-> 0],
             [s |-> "{{ n = 1; n = \"s\" }}", rt |-> TRUE, k |-> "type-change", dl |-> 0],
             [s |-> "@each(e in 5)x@end", rt |-> TRUE, k |-> "non-array", dl |-> 0],
             \* the unexpected token itself sits on a later line than the construct's start: the reported line is the line
             \* on which THAT token ends (dl = its distance from the first line of the fault)
             [s |-> "{{ [1, 2\n\n}}", rt |-> FALSE, k |-> "unexpected-token", dl |-> 2],
             [s |-> "{{ (1\n}}", rt |-> FALSE, k |-> "unexpected-token", dl |-> 1],
             [s |-> "@each(x\n\non ob)", rt |-> FALSE, k |-> "unexpected-token", dl |-> 2],
             [s |-> "{{ 1 +\n\n\n}}", rt |-> FALSE, k |-> "unexpected-token", dl |-> 3],
             [s |-> "{{ ob\n.\nnope }}", rt |-> TRUE, k |-> "unknown-property", dl |-> 1],
             \* a faulty call whose argument list spans several lines: the construct is the function's name
             [s |-> "{{ \"s\".nope(1,\n2\n) }}", rt |-> TRUE, k |-> "unknown-function", dl |-> 0],
             [s |-> "{{ \"s\"\n.nope(\n1\n) }}", rt |-> TRUE, k |-> "unknown-function", dl |-> 1],
             [s |-> "{{ 5.nope(\n\n) }}", rt |-> TRUE, k |-> "unknown-function", dl |-> 0],
             \* the offending token is a string that itself spans several lines: the line on which it ENDS (the operator and the
             \* other operand sit on that line too, so every reading of "the construct's token" gives the same line)
             [s |-> "{{ \"a\nb\" + 1 }}", rt |-> TRUE, k |-> "mistyped-operand", dl |-> 1],
             [s |-> "{{ \"a\n\nb\" * \"c\" }}", rt |-> TRUE, k |-> "mistyped-operand", dl |-> 2],
             [s |-> "{{ ob[\"no\nsuch\"] }}", rt |-> TRUE, k |-> "unknown-property", dl |-> 1]}
             \* (not: -"a⏎b" - the code reports the line of the prefix operator, which is "the construct's token" as well as the
             \* string is; a first version of this set demanded the string's line and was wrong to)
Sum(ss) == LET RECURSIVE S(_) S(x) == IF x = <<>> THEN 0 ELSE x[1].nl + S(Tail(x)) IN S(ss)
Texts(ss) == LET RECURSIVE S(_) S(x) == IF x = <<>> THEN "" ELSE x[1].s \o S(Tail(x)) IN S(ss)
\* placement contexts: [src, line]
Place13(pre, f, post) ==
  {[src |-> Texts(pre) \o f.s \o Texts(post), line |-> 1 + Sum(pre) + f.dl, c |-> "top"],
   [src |-> Texts(pre) \o "@if(true)\n" \o f.s \o "\n@end" \o Texts(post), line |-> 2 + Sum(pre) + f.dl, c |-> "in-if"],
   [src |-> "@each(w in [1,2])\n" \o Texts(pre) \o f.s \o "@end", line |-> 2 + Sum(pre) + f.dl, c |-> "in-each"],
   [src |-> Texts(pre) \o "@if(false)\nA\n@else\n\n" \o f.s \o "@end", line |-> 5 + Sum(pre) + f.dl, c |-> "in-else"],
   [src |-> Texts(pre) \o "@for(i = 0; i < 1; i++)" \o Texts(post) \o f.s \o "\n@end", line |-> 1 + Sum(pre) + Sum(post) + f.dl, c |-> "in-for"]}
\* constructs that the end of the input cuts open: the unexpected token is the end-of-input token, which sits just past the
\* last byte - after a final line break that is the next line (C19)
EofFaults == {Seg("@if(true)\nb\n", 2), Seg("@if(true)\nb", 1), Seg("{{ 1 +\n", 1), Seg("{{ 1 +", 0), Seg("@each(v in [1])\n\n", 2),
              Seg("@insert(\"a\")\nbody\n", 2), Seg("@if(true)$r$\n", 1), Seg("@if(true)\n@if(false)\n@end\n", 3), Seg("{{ [1,\n2\n", 2)}
Cases13(n) == UNION {Place13(pre, f, post) : pre \in SeqsUpTo(Pre13, n), f \in Faults13, post \in {<<>>, <<Seg("a\nb\n", 2)>>}}
              \cup {[src |-> Texts(pre) \o f.s, line |-> 1 + Sum(pre) + f.nl, c |-> "cut-by-eof"] : pre \in SeqsUpTo(Pre13, n), f \in EofFaults}

Data13 == <<[k |-> "ob", v |-> [t |-> "obj", v |-> <<[k |-> "k", v |-> [t |-> "int", b |-> "z", o |-> 1]]>>]]>>

Cases ==
  CASE Family = "c10len2" -> {[src |-> c.src, data |-> <<>>, expect |-> Expect10(c), tags |-> <<"c10", c.c>>] :
                                c \in Cases10(SeqsUpTo(Alpha10, 2) \cup Interesting10)}
    [] Family = "c10len3" -> {[src |-> c.src, data |-> <<>>, expect |-> Expect10(c), tags |-> <<"c10", c.c>>] :
                                c \in Cases10(SeqsUpTo(Alpha10, 3) \cup Interesting10)}
    [] Family = "c13one" -> {[src |-> c.src, data |-> Data13, expect |-> [kind |-> "err", why |-> "fault", line |-> c.line], tags |-> <<"c13", c.c>>] :
                                c \in Cases13(1)}
    [] Family = "c13two" -> {[src |-> c.src, data |-> Data13, expect |-> [kind |-> "err", why |-> "fault", line |-> c.line], tags |-> <<"c13", c.c>>] :
                                c \in Cases13(2)}
Lemma10 == Family \in {"c10len2", "c10len3"} =>
             \A l \in SeqsUpTo(Alpha10, IF Family = "c10len2" THEN 3 ELSE 4) \cup Interesting10 :
                NoRawAngle(l) /\ AmpIsEntity(l) /\ QuotesKept(l) /\ RoundTrip10(l)
ASSUME Lemma10

Init == cas \in Cases /\ rec = FALSE
Next == ~rec /\ rec' = TRUE /\ UNCHANGED cas
Spec == Init /\ [][Next]_vars
Gen == (rec /\ Emit_) => PrintT(ToJson(cas))
=============================================================================
