------------------------------- MODULE MC_Link -------------------------------
(* Template trees for C06 (layouts) and C07 (components): every tree is linked by TwLink and the chosen page is   *)
(* run on machine E; one replayable record {files, cfg, load expectation, render expectation} per case.            *)
EXTENDS TwLink, Json

CONSTANTS Family, Emit_
VARIABLES cas
vars == <<evars, cas>>

H(s) == Html(s, 1)
P(e) == PrintS(e, 1)
Br(c, body) == [c |-> c, body |-> body, ln |-> 1]
Arg(k, e) == [key |-> k, ex |-> e]
Sl(n, body) == [name |-> n, body |-> body]

(* ------------------------------------ C06 ------------------------------------ *)
LayA == <<H("<h>"), Reserve("title", 1), H("</h><b>"), Reserve("content", 1), H("</b>")>>
LayB == <<H("["), If(<<Br(Var("show"), <<H("+"), Reserve("a", 1)>>)>>, <<H("hidden")>>, 1), H("]"), Reserve("b", 1)>>
LayC == <<Each("q", Var("items"), <<H("("), Reserve("row", 1), H(")")>>, <<H("none")>>, 1), H("/"), Reserve("foot", 1)>>
\* reserves in the @else body of a loop and in the @else body of an @if
LayD == <<Each("q", Var("items"), <<H("("), P(Var("q")), H(")")>>, <<H("none:"), Reserve("empty", 1)>>, 1), H("/"),
          If(<<Br(Var("show"), <<H("+")>>)>>, <<H("alt:"), Reserve("alt", 1)>>, 1)>>
\* C06 reads "the rendering of layout L in which each @reserve(n) is replaced by the insert's content": what a block-form
\* insert assigns is assigned in the layout, at the place of the reserve
LayE == <<Assign("z", StrL("lay"), 1), Reserve("set", 1), H("|"), P(Var("z")), H("|"), Reserve("use", 1), H("|"), If(<<Br(Var("show"), <<Reserve("inner", 1), P(Var("z"))>>)>>, NoElse, 1)>>
PagesE == {<<InsertB("set", <<Assign("z", StrL("page"), 1), H("s")>>, 1)>>,
           <<InsertB("set", <<Assign("z", StrL("page"), 1)>>, 1), InsertB("use", <<H("u:"), P(Var("z"))>>, 1)>>,
           <<InsertB("use", <<P(Var("z")), Assign("w", IntL(1), 1)>>, 1), InsertB("inner", <<Assign("z", StrL("in"), 1), P(Var("w"))>>, 1)>>,
           <<InsertE("use", Var("z"), 1), InsertB("set", <<Assign("fresh", IntL(3), 1)>>, 1), InsertB("inner", <<P(Var("fresh"))>>, 1)>>,
           \* white space at the start and at the end of an insert's body is part of the body
           <<InsertB("set", <<H(" "), P(Var("t")), H("! ")>>, 1), InsertB("use", <<H("\n  "), If(<<Br(Var("show"), <<H("y")>>)>>, NoElse, 1), H("\n")>>, 1), InsertB("inner", <<H("\t"), P(Var("z"))>>, 1)>>,
           \* an insert body is evaluated once, where its reserve stands: what it adds to a name it reads is added once
           <<InsertB("set", <<Assign("z", Bin("+", Var("z"), StrL("+")), 1), H("s"), P(Var("z"))>>, 1), InsertB("use", <<Assign("z", Bin("+", Var("z"), StrL("u")), 1), P(Var("z"))>>, 1),
             InsertB("inner", <<Assign("z", Bin("+", Var("z"), StrL("i")), 1)>>, 1)>>,
           <<InsertB("set", <<Assign("n", IntL(0), 1)>>, 1), InsertB("use", <<Assign("n", Bin("+", Var("n"), IntL(1)), 1), H("x"), P(Var("n"))>>, 1), InsertB("inner", <<P(Var("n"))>>, 1)>>}
\* contents an insert may have for reserve r
InsForms(r) == {InsertE(r, Tern(Var("show"), StrL("yes-" \o r), StrL("no")), 1), InsertE(r, Tern(BoolL(FALSE), IntL(1), Bin("+", Var("t"), StrL("?"))), 1),   \* a ternary as the value
                InsertE(r, IntL(0), 1), InsertE(r, BoolL(FALSE), 1), InsertE(r, FloatL(0, 0), 1), InsertE(r, StrL(""), 1), InsertE(r, NilL, 1),   \* falsy values are values
                InsertB(r, <<>>, 1),                      \* a block-form insert with an empty body fills the reserve with nothing
                InsertB(r, <<H(r), H(":"), P(Var("t"))>>, 1), InsertE(r, StrL("lit-" \o r), 1), InsertE(r, Bin("+", Var("t"), StrL("!")), 1),
                InsertB(r, <<If(<<Br(Var("show"), <<H("s")>>)>>, <<H("n")>>, 1)>>, 1)}
RowForms == {InsertB("row", <<P(Var("q")), H("#"), P(Dot(Var("loop"), "iter"))>>, 1), InsertE("row", Bin("*", Var("q"), IntL(2)), 1)}
NoStmt == [k |-> "none"]
Opt(X) == X \cup {NoStmt}
Stmts(x) == IF x.k = "none" THEN <<>> ELSE <<x>>
PagesA == {Stmts(i1) \o <<H(" junk ")>> \o Stmts(i2) : i1 \in Opt(InsForms("title")), i2 \in Opt(InsForms("content"))}
          \* code of the page outside its inserts is not part of the output and does not reach the layout
          \cup {<<Assign("t", v, 1), P(Var("t")), InsertB("content", <<H("c:"), P(Var("t"))>>, 1), Assign("show", IntL(0), 1), InsertE("title", Var("t"), 1), P(Var("zz"))>> : v \in {StrL("page"), IntL(5)}}
          \cup {Stmts(i2) \o Stmts(i1) \o <<H("tail")>> : i1 \in Opt(InsForms("title")), i2 \in InsForms("content")}
PagesB == {Stmts(i1) \o Stmts(i2) : i1 \in Opt(InsForms("a")), i2 \in Opt(InsForms("b"))}
PagesC == {Stmts(i1) \o Stmts(i2) : i1 \in Opt(RowForms), i2 \in Opt(InsForms("foot"))}
PagesD == {Stmts(i1) \o Stmts(i2) : i1 \in Opt(InsForms("empty")), i2 \in Opt(InsForms("alt"))}
DataSets06 == {<<[n |-> "t", v |-> S("T")], [n |-> "show", v |-> B(sh)], [n |-> "items", v |-> A(it)]>> :
                 sh \in BOOLEAN, it \in {<<>>, <<I(1), I(2)>>}}
Tree06(lay, pagebody, useRef) == [n \in {"layouts/main", "home"} |->
                                    IF n = "home" THEN Tpl(useRef, <<H("ignored")>> \o pagebody) ELSE Tpl(NoUse, lay)]
\* several pages of one layout in one load, with different inserts (or none) for reserves nested in @if / @each: every
\* page shows its own
Tree06n(lay, bodies) == [n \in {"layouts/main"} \cup DOMAIN bodies |-> IF n = "layouts/main" THEN Tpl(NoUse, lay) ELSE Tpl(Alias("main"), bodies[n])]
TwoPages06 == {[tree |-> Tree06n(LayB, [n \in {"home", "other", "zlast"} |-> CASE n = "home" -> b1 [] n = "other" -> b2 [] n = "zlast" -> b3]), page |-> pg, d |-> d,
                tags |-> <<"c06", "pages-of-one-layout">>] :
                 b1 \in {Stmts(i1) \o Stmts(i2) : i1 \in {InsertE("a", StrL("A1"), 1)}, i2 \in {InsertB("b", <<H("B1")>>, 1)}},
                 b2 \in {<<InsertE("a", StrL("A2"), 1)>>, <<>>, <<InsertB("b", <<H("B2")>>, 1), InsertB("a", <<H("A2"), P(Var("t"))>>, 1)>>},
                 b3 \in {<<InsertE("a", StrL("A3"), 1), InsertE("b", StrL("B3"), 1)>>, <<>>},
                 pg \in {"home", "other", "zlast"}, d \in DataSets06}
              \cup {[tree |-> Tree06n(LayC, [n \in {"home", "other"} |-> IF n = "home" THEN <<InsertE("row", Var("q"), 1), InsertE("foot", StrL("F1"), 1)>>
                                                                        ELSE <<InsertB("row", <<H("r2")>>, 1)>>]), page |-> pg, d |-> d,
                     tags |-> <<"c06", "pages-of-one-layout">>] : pg \in {"home", "other"}, d \in DataSets06}
\* layout and component names with a dot in their last element ('~main.v2' is the file layouts/main.v2 + extension)
DotNames06 == {[tree |-> [n \in {"home", "layouts/main.v2", "layouts/x.y/base", "components/card.v1"} |->
                            CASE n = "home" -> Tpl(u, <<InsertE("title", StrL("T"), 1), InsertB("content", <<H("c:"), Comp(Alias("card.v1"), <<Arg("name", Var("t"))>>, <<>>, 1)>>, 1)>>)
                              [] n = "components/card.v1" -> Tpl(NoUse, <<H("card:"), P(Var("name"))>>)
                              [] OTHER -> Tpl(NoUse, <<H(n), H(":")>> \o LayA)],
                 page |-> "home", d |-> d, tags |-> <<"c06", "dotted-names">>] :
                 u \in {Alias("main.v2"), Ref("layouts/main.v2"), Alias("x.y/base"), Ref("layouts/x.y/base")}, d \in DataSets06}
Good06 == TwoPages06 \cup DotNames06 \cup
          {[tree |-> Tree06(<<H("<plain>"), P(Var("t"))>>, <<H("only text")>>, u), page |-> "home", d |-> d, tags |-> <<"c06", "no-reserves">>] :
             u \in {Ref("layouts/main"), Alias("main")}, d \in DataSets06}      \* a layout without reserves, a page without inserts
          \cup {[tree |-> Tree06(LayA, pb, u), page |-> "home", d |-> d, tags |-> <<"c06", "A">>] :
             pb \in PagesA, u \in {Ref("layouts/main"), Alias("main")}, d \in DataSets06}
          \* the layout FILE L: the same file named through a path prefix that changes nothing
          \cup {[tree |-> Tree06(LayA, pb, u), page |-> "home", d |-> d, tags |-> <<"c06", "A", "path-spelling">>] :
             pb \in PagesA, u \in {RefVia("./", "layouts/main"), RefVia("layouts/../", "layouts/main")}, d \in {CHOOSE x \in DataSets06 : TRUE}}
          \cup {[tree |-> Tree06(LayB, pb, u), page |-> "home", d |-> d, tags |-> <<"c06", "B">>] :
             pb \in PagesB, u \in {Ref("layouts/main"), Alias("main")}, d \in DataSets06}
          \cup {[tree |-> Tree06(LayC, pb, Alias("main")), page |-> "home", d |-> d, tags |-> <<"c06", "C">>] : pb \in PagesC, d \in DataSets06}
          \cup {[tree |-> Tree06(LayD, pb, Alias("main")), page |-> "home", d |-> d, tags |-> <<"c06", "D">>] : pb \in PagesD, d \in DataSets06}
          \cup {[tree |-> Tree06(LayE, pb, Alias("main")), page |-> "home", d |-> d, tags |-> <<"c06", "E">>] : pb \in PagesE, d \in DataSets06}
\* insert naming no reserve, two inserts with one name, missing layout, layout that uses a layout
D0 == CHOOSE d \in DataSets06 : TRUE
Bad06 == {[tree |-> Tree06(LayA, <<InsertE("title", StrL("x"), 1), InsertE("nope", StrL("y"), 1)>>, Alias("main")), page |-> "home", d |-> D0, tags |-> <<"c06", "undefined-insert">>],
          [tree |-> Tree06(LayA, <<InsertB("nope", <<H("y")>>, 1)>>, Ref("layouts/main")), page |-> "home", d |-> D0, tags |-> <<"c06", "undefined-insert">>],
          \* every reserve is filled and one more insert names no reserve, sorted before / between / after the defined names
          [tree |-> Tree06(LayA, <<InsertE("title", StrL("x"), 1), InsertB("content", <<H("c")>>, 1), InsertE("zz-footer", StrL("y"), 1)>>, Alias("main")), page |-> "home", d |-> D0, tags |-> <<"c06", "undefined-insert">>],
          [tree |-> Tree06(LayA, <<InsertE("aa-first", StrL("y"), 1), InsertE("title", StrL("x"), 1), InsertB("content", <<H("c")>>, 1)>>, Alias("main")), page |-> "home", d |-> D0, tags |-> <<"c06", "undefined-insert">>],
          [tree |-> Tree06(LayA, <<InsertE("title", StrL("x"), 1), InsertB("middle", <<H("m")>>, 1), InsertB("content", <<H("c")>>, 1)>>, Alias("main")), page |-> "home", d |-> D0, tags |-> <<"c06", "undefined-insert">>],
          [tree |-> Tree06(LayA, <<InsertE("title", StrL("x"), 1), InsertB("title", <<H("y")>>, 1)>>, Alias("main")), page |-> "home", d |-> D0, tags |-> <<"c06", "duplicate-insert">>],
          [tree |-> Tree06(LayA, <<If(<<Br(BoolL(TRUE), <<InsertE("title", StrL("x"), 1)>>)>>, NoElse, 1), InsertE("title", StrL("z"), 1)>>, Alias("main")), page |-> "home", d |-> D0, tags |-> <<"c06", "duplicate-insert">>],
          [tree |-> [n \in {"home"} |-> Tpl(Alias("main"), <<InsertE("title", StrL("x"), 1)>>)], page |-> "home", d |-> D0, tags |-> <<"c06", "missing-layout">>],
          [tree |-> [n \in {"home"} |-> Tpl(Ref("nowhere/l"), <<>>)], page |-> "home", d |-> D0, tags |-> <<"c06", "missing-layout">>],
          [tree |-> [n \in {"layouts/main", "layouts/base", "home"} |->
                       CASE n = "home" -> Tpl(Alias("main"), <<InsertE("title", StrL("x"), 1)>>)
                         [] n = "layouts/main" -> Tpl(Alias("base"), LayA)
                         [] n = "layouts/base" -> Tpl(NoUse, <<H("base"), Reserve("title", 1), Reserve("content", 1)>>)],
           page |-> "home", d |-> D0, tags |-> <<"c06", "layout-uses-layout">>]}
         \* a layout without any reserve: every insert of the page names no reserve
         \cup {[tree |-> Tree06(<<H("<plain>"), P(Var("t"))>>, pb, u), page |-> "home", d |-> D0, tags |-> <<"c06", "undefined-insert", "no-reserves">>] :
                 u \in {Ref("layouts/main"), Alias("main")},
                 pb \in {<<InsertE("title", StrL("x"), 1)>>, <<InsertB("content", <<H("y")>>, 1)>>, <<InsertE("a", StrL("x"), 1), InsertB("b", <<H("y")>>, 1)>>}}
         \* the layout's @use sits in a branch that is not taken, in a loop that runs zero times, after text, in the taken branch
         \cup {[tree |-> [n \in {"layouts/main", "layouts/base", "home"} |->
                           CASE n = "home" -> Tpl(Alias("main"), <<InsertE("title", StrL("x"), 1)>>)
                             [] n = "layouts/main" -> Tpl(NoUse, lb)
                             [] n = "layouts/base" -> Tpl(NoUse, <<H("base"), Reserve("title", 1)>>)],
                 page |-> "home", d |-> d, tags |-> <<"c06", "layout-uses-layout", "nested">>] :
               d \in DataSets06,
               lb \in {<<If(<<Br(Var("show"), <<UseS(u, 1)>>)>>, NoElse, 1), H("<t>"), Reserve("title", 1)>> : u \in {Ref("layouts/base"), Alias("base")}}
                    \cup {<<If(<<Br(Var("show"), <<H("y")>>)>>, <<UseS(Alias("base"), 1)>>, 1), Reserve("title", 1)>>,
                           <<Each("q", Var("items"), <<UseS(Alias("base"), 1)>>, NoElse, 1), Reserve("title", 1)>>,
                           <<Each("q", Var("items"), <<H("r")>>, <<UseS(Alias("base"), 1)>>, 1), Reserve("title", 1)>>,
                           <<H("<t>"), Reserve("title", 1), UseS(Alias("base"), 1)>>,
                           <<If(<<Br(BoolL(FALSE), <<If(<<Br(BoolL(TRUE), <<UseS(Alias("base"), 1)>>)>>, NoElse, 1)>>)>>, NoElse, 1), Reserve("title", 1)>>}}

(* ------------------------------------ C07 ------------------------------------ *)
CompPlain == <<H("<li>"), P(Var("name")), H("</li>")>>
CompDef == <<H("<d>"), Slot("", 1), H("</d>")>>
CompNamed == <<If(<<Br(Var("big"), <<H("BIG")>>)>>, <<H("sm")>>, 1), Slot("head", 1), H("|"), P(Var("n")), H("|"), Slot("foot", 1)>>
CompBoth == <<H("{"), Slot("", 1), H("/"), Slot("x", 1), H("/"), P(Var("n")), H("}")>>
CompTwo == <<P(Var("a")), H("-"), P(Var("b")), H("-"), P(Var("c"))>>
\* components that assign: the assignment lives in the component's own scope (C04) and every use starts afresh (C07)
\* a component that reads what surrounds the place of use (the caller's loop variable, its loop object, its variables)
\* slot placeholders as the very first and the very last statement of the component file
CompSlotFirst == <<Slot("head", 1), H("|"), Slot("", 1), H("|"), Slot("foot", 1)>>
CompEcho == <<H("<"), P(Var("x")), H(":"), P(Dot(Var("loop"), "iter")), H(":"), P(Var("who")), H(">")>>
CompSetter == <<Assign("t", StrL("in"), 1), H("("), P(Var("t")), H(")")>>
CompBump == <<Assign("cnt", Bin("+", Var("cnt"), IntL(1)), 1), P(Var("cnt")), Slot("", 1)>>
\* arguments that are objects / arrays of objects themselves
CompDeep == <<H("deep:"), P(Dot(Var("user"), "name")), H("/"), P(Var("n")), H("/"), P(Dot(Idx(Var("list"), IntL(0)), "a"))>>
Comps07 == [n \in {"components/deep", "components/plain", "components/def", "components/named", "components/both", "components/two", "card",
                   "components/setter", "components/bump", "components/echo", "components/edges"} |->
              CASE n = "components/plain" -> Tpl(NoUse, CompPlain) [] n = "components/def" -> Tpl(NoUse, CompDef)
                [] n = "components/named" -> Tpl(NoUse, CompNamed) [] n = "components/both" -> Tpl(NoUse, CompBoth)
                [] n = "components/two" -> Tpl(NoUse, CompTwo)
                [] n = "components/echo" -> Tpl(NoUse, CompEcho) [] n = "components/edges" -> Tpl(NoUse, CompSlotFirst)
                [] n = "components/setter" -> Tpl(NoUse, CompSetter) [] n = "components/bump" -> Tpl(NoUse, CompBump)
                [] n = "components/deep" -> Tpl(NoUse, CompDeep)
                [] n = "card" -> Tpl(NoUse, <<H("card:"), P(Var("name"))>>)]
Uses == {Comp(Alias("plain"), <<Arg("name", StrL("Ann"))>>, <<>>, 1), Comp(Alias("plain"), <<Arg("name", Var("who"))>>, <<>>, 1),
         Comp(Ref("components/plain"), <<Arg("name", Bin("+", Var("who"), StrL("!")))>>, <<>>, 1),
         Comp(Alias("def"), <<>>, <<Sl("", <<H("one"), P(Var("who"))>>)>>, 1), Comp(Alias("def"), <<>>, <<Sl("", <<H("two")>>)>>, 1),
         Comp(Alias("def"), <<>>, <<>>, 1),
         Comp(Alias("named"), <<Arg("n", IntL(1)), Arg("big", BoolL(TRUE))>>, <<Sl("head", <<H("H1")>>), Sl("foot", <<H("F1")>>)>>, 1),
         Comp(Alias("named"), <<Arg("n", IntL(2)), Arg("big", BoolL(FALSE))>>, <<Sl("foot", <<H("F2"), P(Var("n"))>>)>>, 1),
         Comp(Alias("named"), <<Arg("n", Var("cnt")), Arg("big", Var("cnt"))>>, <<>>, 1),
         Comp(Alias("both"), <<Arg("n", StrL("b"))>>, <<Sl("x", <<H("X")>>), Sl("", <<H("D")>>)>>, 1),
         Comp(Alias("both"), <<Arg("n", StrL("c"))>>, <<Sl("", <<Comp(Alias("plain"), <<Arg("name", StrL("in"))>>, <<>>, 1)>>)>>, 1),
         Comp(Ref("card"), <<Arg("name", Var("who"))>>, <<>>, 1),
         \* a slot body is passed whole: white space at its start and end is part of it
         Comp(Alias("named"), <<Arg("n", IntL(1)), Arg("big", BoolL(FALSE))>>, <<Sl("head", <<H(" "), P(Var("who")), H(" ")>>), Sl("foot", <<H("\n  "), If(<<Br(Var("yes"), <<H("y")>>)>>, NoElse, 1), H("\n")>>)>>, 1),
         Comp(Alias("def"), <<>>, <<Sl("", <<H("  "), P(Var("cnt")), H("\t")>>)>>, 1),
         Comp(Alias("edges"), <<>>, <<Sl("head", <<H("H")>>)>>, 1), Comp(Alias("edges"), <<>>, <<Sl("foot", <<H("F")>>), Sl("", <<H("D")>>), Sl("head", <<P(Var("who"))>>)>>, 1),
         \* nested object literals as argument values (written without blanks their closing braces touch: "}}" inside a directive)
         Comp(Alias("deep"), <<Arg("n", IntL(1)), Arg("list", ArrL(<<ObjL(<<[key |-> "a", ex |-> IntL(7)]>>)>>)), Arg("user", ObjL(<<[key |-> "name", ex |-> Var("who")]>>))>>, <<>>, 1),
         Comp(Alias("deep"), <<Arg("user", ObjL(<<[key |-> "inner", ex |-> ObjL(<<[key |-> "x", ex |-> IntL(1)]>>)], [key |-> "name", ex |-> StrL("last")]>>)), Arg("list", ArrL(<<ObjL(<<[key |-> "a", ex |-> Var("cnt")]>>)>>)), Arg("n", Var("who"))>>, <<>>, 1),
         \* an argument whose value is nil, empty or falsy is bound like any other
         Comp(Alias("plain"), <<Arg("name", NilL)>>, <<>>, 1), Comp(Alias("two"), <<Arg("a", StrL("")), Arg("b", IntL(0)), Arg("c", BoolL(FALSE))>>, <<>>, 1),
         Comp(Alias("named"), <<Arg("n", NilL), Arg("big", NilL)>>, <<Sl("head", <<H("h")>>)>>, 1)}
Data07 == <<[n |-> "who", v |-> S("Bo")], [n |-> "cnt", v |-> I(3)], [n |-> "xs", v |-> A(<<S("p"), S("q")>>)], [n |-> "yes", v |-> B(TRUE)]>>
\* what a component assigns never reaches the page, the next use, or the next pass of a loop - with and without arguments / slots
SetterUses == {Comp(Alias("setter"), <<>>, <<>>, 1), Comp(Alias("setter"), <<Arg("z", IntL(1))>>, <<>>, 1), Comp(Alias("setter"), <<Arg("t", StrL("arg"))>>, <<>>, 1)}
BumpUses == {Comp(Alias("bump"), <<>>, <<>>, 1), Comp(Alias("bump"), <<Arg("z", IntL(1))>>, <<>>, 1), Comp(Alias("bump"), <<>>, <<Sl("", <<H("s"), P(Var("cnt"))>>)>>, 1),
             Comp(Alias("bump"), <<Arg("cnt", IntL(10))>>, <<>>, 1)}
Leak07 == {<<Assign("t", StrL("out"), 1), u, H("="), P(Var("t"))>> : u \in SetterUses}
          \cup {<<u, H("="), P(Var("t"))>> : u \in SetterUses}
          \cup {<<u1, H(","), u2, H("="), P(Var("cnt"))>> : u1 \in BumpUses, u2 \in BumpUses}
          \cup {<<Each("x", Var("xs"), <<u, H(";")>>, NoElse, 1), P(Var("cnt"))>> : u \in BumpUses}
          \cup {<<If(<<Br(Var("yes"), <<u>>)>>, NoElse, 1), P(Var("cnt"))>> : u \in BumpUses}
Tree07(body) == [n \in DOMAIN Comps07 \cup {"home"} |-> IF n = "home" THEN Tpl(NoUse, body) ELSE Comps07[n]]
\* one, two and three uses side by side; the same component several times with different arguments and slot bodies
Pages07 == {<<H("A:"), u1, H(" B:"), u2>> : u1 \in Uses, u2 \in Uses}
      \cup {<<u1, H(","), u2, H(","), u3>> : u1 \in Uses, u2 \in {Comp(Alias("def"), <<>>, <<>>, 1), Comp(Alias("def"), <<>>, <<Sl("", <<H("mid")>>)>>, 1)}, u3 \in Uses}
      \cup {<<Each("x", Var("xs"), <<H("["), [u EXCEPT !.args = <<Arg("name", Var("x"))>>], H("]")>>, NoElse, 1)>> : u \in {Comp(Alias("plain"), <<>>, <<>>, 1)}}
      \cup {<<Each("x", Var("xs"), <<Comp(Alias("def"), <<>>, <<Sl("", <<P(Var("x")), P(Dot(Var("loop"), "index"))>>)>>, 1)>>, NoElse, 1)>>}
      \cup {<<If(<<Br(Var("yes"), <<u>>)>>, <<H("no")>>, 1), If(<<Br(IntL(0), <<H("no")>>)>>, <<u>>, 1)>> : u \in Uses}
      \cup {<<Assign("name", StrL("outer"), 1), u, H("="), P(Var("name"))>> : u \in Uses}
      \cup Leak07
      \* a use without arguments and without slots inside a loop shows the surrounding variables of EACH pass
      \cup {<<Each("x", Var("xs"), <<u, H(";")>>, NoElse, 1)>> : u \in {Comp(Alias("echo"), <<>>, <<>>, 1), Comp(Alias("echo"), <<Arg("z", IntL(1))>>, <<>>, 1)}}
      \cup {<<Each("x", Var("xs"), <<Comp(Alias("echo"), <<>>, <<>>, 1), If(<<Br(Dot(Var("loop"), "first"), <<Comp(Alias("echo"), <<>>, <<>>, 1)>>)>>, NoElse, 1)>>, NoElse, 1)>>,
            <<For(Assign("x", IntL(0), 1), Bin("<", Var("x"), IntL(3)), Post("++", Var("x")), <<Each("y", Var("xs"), <<Comp(Alias("echo"), <<>>, <<>>, 1)>>, NoElse, 1)>>, NoElse, 1)>>}
      \* arguments computed from a literal and something that changes from pass to pass: evaluated at the place of use, every time
      \cup {<<Each("x", Var("xs"), <<H("["), Comp(Alias("plain"), <<Arg("name", Bin("+", StrL("N:"), Var("x")))>>, <<>>, 1),
                                       Comp(Alias("two"), <<Arg("a", Bin("+", Dot(Var("loop"), "index"), IntL(1))), Arg("b", Bin("+", Var("x"), StrL("!"))),
                                                            Arg("c", Tern(Dot(Var("loop"), "first"), IntL(1), IntL(2)))>>, <<>>, 1), H("]")>>, NoElse, 1)>>,
            <<For(Assign("i", IntL(0), 1), Bin("<", Var("i"), IntL(3)), Post("++", Var("i")),
                  <<Comp(Alias("two"), <<Arg("a", Bin("*", Var("i"), IntL(10))), Arg("b", Bin("-", IntL(1), Var("i"))), Arg("c", ArrL(<<IntL(7), Var("i")>>))>>, <<>>, 1), H(";")>>, NoElse, 1)>>,
            <<Each("x", Var("xs"), <<Comp(Alias("def"), <<>>, <<Sl("", <<P(Bin("+", StrL("s:"), Var("x")))>>)>>, 1),
                                     Comp(Alias("deep"), <<Arg("n", Bin("+", Dot(Var("loop"), "iter"), IntL(0))), Arg("user", ObjL(<<[key |-> "name", ex |-> Bin("+", StrL("u"), Var("x"))]>>)),
                                                           Arg("list", ArrL(<<ObjL(<<[key |-> "a", ex |-> Bin("+", IntL(1), Dot(Var("loop"), "index"))]>>)>>))>>, <<>>, 1)>>, NoElse, 1)>>}
      \* the surrounding variables a component sees are those visible at the place of use: the innermost binding of a name
      \cup {<<Each("x", Var("xs"), <<Each("x", ArrL(<<StrL("i1"), StrL("i2"), StrL("i3")>>), <<Comp(Alias("echo"), <<>>, <<>>, 1)>>, NoElse, 1), H(";")>>, NoElse, 1)>>,
            <<Each("x", Var("xs"), <<Assign("who", StrL("W2"), 1), Comp(Alias("echo"), <<>>, <<>>, 1), Comp(Alias("echo"), <<Arg("z", IntL(1))>>, <<>>, 1)>>, NoElse, 1), P(Var("who"))>>,
            <<Each("y", ArrL(<<IntL(1), IntL(2), IntL(3)>>), <<Each("x", Var("xs"), <<If(<<Br(Dot(Var("loop"), "last"), <<Comp(Alias("echo"), <<>>, <<>>, 1)>>)>>, NoElse, 1)>>, NoElse, 1)>>, NoElse, 1)>>}
      \* a use in the @else body of a loop (and in every other block position of a loop / chain)
      \cup {<<Each("x", ArrL(<<>>), <<H("never")>>, <<H("e:"), u>>, 1), For(Assign("i", IntL(5), 1), Bin("<", Var("i"), IntL(2)), Post("++", Var("i")), <<H("never")>>, <<u, H(".")>>, 1),
              If(<<Br(IntL(0), <<H("no")>>), Br(Var("yes"), <<u>>)>>, <<H("no")>>, 1)>> : u \in Uses}
      \* white space between a use and the next {{ }} or directive is text of the page like any other (C05)
      \cup {<<H("["), u, H(" "), P(Var("who")), H("]")>> : u \in Uses}
      \cup {<<u, H("\n  "), If(<<Br(Var("yes"), <<H("y")>>)>>, NoElse, 1), H(" "), u>> : u \in Uses}
\* every argument is evaluated at the place of use: an argument never sees its sibling arguments, whatever their order
TwoUses == {Comp(Alias("two"), <<Arg(k1, StrL("A")), Arg(k2, Bin("+", Var(k1), StrL("!"))), Arg(k3, Var(k2))>>, <<>>, 1) :
              k1 \in {"a", "b", "c"}, k2 \in {"a", "b", "c"}, k3 \in {"a", "b", "c"}}
Shadow07 == {<<Assign("a", StrL("oa"), 1), Assign("b", StrL("ob"), 1), Assign("c", StrL("oc"), 1), H("<"), u, H(">"), P(Var("a")), P(Var("b")), P(Var("c"))>> :
               u \in {x \in TwoUses : Cardinality({x.args[1].key, x.args[2].key, x.args[3].key}) = 3}}
Good07 == {[tree |-> Tree07(pb), page |-> "home", d |-> Data07, tags |-> <<"c07", "page">>] : pb \in Pages07 \cup Shadow07}
\* a component inside an insert of a page that uses a layout
InLayout07 == {[tree |-> [n \in DOMAIN Comps07 \cup {"home", "layouts/main"} |->
                            CASE n = "home" -> Tpl(Alias("main"), <<InsertB("content", <<H("c:"), u>>, 1), InsertE("title", StrL("t"), 1)>>)
                              [] n = "layouts/main" -> Tpl(NoUse, LayA) [] OTHER -> Comps07[n]],
                 page |-> "home", d |-> Data07, tags |-> <<"c07", "in-insert">>] : u \in Uses}
Bad07 == {[tree |-> Tree07(<<H("x"), u>>), page |-> "home", d |-> Data07, tags |-> <<"c07", t>>] :
            <<u, t>> \in {<<Comp(Alias("plain"), <<>>, <<Sl("", <<H("s")>>)>>, 1), "undeclared-slot">>,
                          <<Comp(Alias("named"), <<>>, <<Sl("nope", <<H("s")>>)>>, 1), "undeclared-slot">>,
                          <<Comp(Alias("def"), <<>>, <<Sl("x", <<H("s")>>)>>, 1), "undeclared-slot">>,
                          <<Comp(Alias("def"), <<>>, <<Sl("x", <<>>)>>, 1), "undeclared-slot">>, <<Comp(Alias("plain"), <<>>, <<Sl("", <<>>)>>, 1), "undeclared-slot">>,
                          <<Comp(Alias("named"), <<>>, <<Sl("head", <<H("a")>>), Sl("nope", <<>>)>>, 1), "undeclared-slot">>,
                          <<Comp(Alias("def"), <<>>, <<Sl("", <<>>), Sl("", <<>>)>>, 1), "slot-twice">>,
                          <<Comp(Alias("def"), <<>>, <<Sl("", <<H("a")>>), Sl("", <<H("b")>>)>>, 1), "slot-twice">>,
                          <<Comp(Alias("named"), <<>>, <<Sl("head", <<H("a")>>), Sl("foot", <<H("f")>>), Sl("head", <<H("b")>>)>>, 1), "slot-twice">>,
                          <<Comp(Alias("ghost"), <<>>, <<>>, 1), "missing-component">>,
                          <<Each("x", Var("xs"), <<H("p")>>, <<Comp(Alias("ghost"), <<>>, <<>>, 1)>>, 1), "missing-component">>,
                          <<Each("x", Var("xs"), <<H("p")>>, <<Comp(Alias("def"), <<>>, <<Sl("x", <<H("s")>>)>>, 1)>>, 1), "undeclared-slot">>,
                          <<For(Assign("i", IntL(0), 1), Bin("<", Var("i"), IntL(1)), Post("++", Var("i")), <<H("p")>>, <<Comp(Alias("def"), <<>>, <<Sl("", <<>>), Sl("", <<>>)>>, 1)>>, 1), "slot-twice">>,
                          <<Comp(Ref("components/ghost"), <<Arg("a", IntL(1))>>, <<>>, 1), "missing-component">>}}

(* ---------------- C10 in trees: a literal passed as insert or component argument is escaped ---------------- *)
EscL == Lit(S("&lt;b&gt;&amp;'q'"), "\"<b>&'q'\"", "str")
SpL == Lit(S("  padded &amp; \t"), "\"  padded & \t\"", "str")          \* white space at both ends of a literal belongs to it
\* raw() on the literal: exactly its original text, also as an insert or component argument and in a concatenation
RawL == Lit(S("<b>&'q'"), "\"<b>&'q'\".raw()", "str")
RawL2 == Lit(S("a > b \"c\""), "'a > b \"c\"'.raw()", "str")
Esc10 == {[tree |-> [n \in DOMAIN Comps07 \cup {"home", "layouts/main"} |->
                       CASE n = "home" -> Tpl(Alias("main"), <<InsertE("title", L, 1), InsertB("content", <<P(L), H("|"), Comp(Alias("plain"), <<Arg("name", L)>>, <<>>, 1),
                                                                                                   H("|"), Comp(Alias("def"), <<>>, <<Sl("", <<P(Bin("+", L, StrL("!")))>>)>>, 1)>>, 1)>>)
                         [] n = "layouts/main" -> Tpl(NoUse, LayA) [] OTHER -> Comps07[n]],
            page |-> "home", d |-> Data07, tags |-> <<"c10", "tree">>] : L \in {EscL, SpL, RawL, RawL2}}
         \cup {[tree |-> [n \in DOMAIN Comps07 \cup {"home", "layouts/main"} |->
                       CASE n = "home" -> Tpl(Alias("main"), <<InsertE("title", Bin("+", L, StrL("!")), 1), InsertB("content", <<P(ArrL(<<L, StrL("z")>>))>>, 1)>>)
                         [] n = "layouts/main" -> Tpl(NoUse, LayA) [] OTHER -> Comps07[n]],
            page |-> "home", d |-> Data07, tags |-> <<"c10", "tree", "concat">>] : L \in {EscL, RawL, RawL2}}

(* ---------- C07 / C04: an argument named like a visible variable of another type is bound or refused, never dropped ---------- *)
PolicyShadow == "shadow"
LayTight == "tight"
SepLines == "\n    "
SepComment == "\n  {{-- between --}}\n  "
OuterVals == {IntL(7), BoolL(TRUE), BoolL(FALSE), Lit(F(5, 1), "2.5", "float"), ArrL(<<IntL(1)>>)}
Data07c == Data07 \o <<[n |-> "a", v |-> I(5)], [n |-> "name", v |-> B(TRUE)]>>
Collide07 ==
  \* the outer name is assigned in the page, the component prints its three arguments
  {[tree |-> Tree07(<<Assign(k, ov, 1), H("<"), Comp(Alias("two"), <<Arg("a", StrL("A")), Arg("b", StrL("B")), Arg("c", StrL("C"))>>, <<>>, 1), H(">")>>),
    page |-> "home", d |-> Data07, tags |-> <<"c07", "collide", "assigned">>] : k \in {"a", "b", "c"}, ov \in OuterVals}
  \* the outer name comes from the data map
  \cup {[tree |-> Tree07(<<H("<"), u, H(">")>>), page |-> "home", d |-> Data07c, tags |-> <<"c07", "collide", "data">>] :
          u \in {Comp(Alias("two"), <<Arg("a", StrL("A")), Arg("b", StrL("B")), Arg("c", StrL("C"))>>, <<>>, 1),
                 Comp(Alias("plain"), <<Arg("name", StrL("Ann"))>>, <<>>, 1), Comp(Ref("card"), <<Arg("name", Var("who"))>>, <<>>, 1)}}
  \* the outer name is a loop variable, an integer argument over a string
  \cup {[tree |-> Tree07(<<Each("name", Var("xs"), <<H("["), Comp(Alias("plain"), <<Arg("name", IntL(3))>>, <<>>, 1), H("]")>>, NoElse, 1)>>),
         page |-> "home", d |-> Data07, tags |-> <<"c07", "collide", "loopvar">>]}
  \* and inside an insert of a page that uses a layout
  \cup {[tree |-> [n \in DOMAIN Comps07 \cup {"home", "layouts/main"} |->
                    CASE n = "home" -> Tpl(Alias("main"), <<InsertB("content", <<Assign("name", IntL(1), 1), Comp(Alias("plain"), <<Arg("name", StrL("Ann"))>>, <<>>, 1)>>, 1), InsertE("title", StrL("t"), 1)>>)
                      [] n = "layouts/main" -> Tpl(NoUse, LayA) [] OTHER -> Comps07[n]],
         page |-> "home", d |-> Data07, tags |-> <<"c07", "collide", "in-insert">>]}

(* ---------- C04: names bound by component arguments vanish when the component ends ---------- *)
ArgUses == {Comp(Alias("plain"), <<Arg("name", StrL("Ann"))>>, <<>>, 1), Comp(Alias("plain"), <<Arg("name", IntL(5))>>, <<>>, 1),
            Comp(Alias("two"), <<Arg("a", StrL("A")), Arg("b", IntL(2)), Arg("c", Var("who"))>>, <<>>, 1),
            Comp(Alias("named"), <<Arg("n", IntL(1)), Arg("big", BoolL(TRUE))>>, <<Sl("head", <<P(Var("n"))>>)>>, 1)}
ArgNames(u) == {u.args[i].key : i \in 1..Len(u.args)}
Vanish04 == \* the argument name is unknown after the use (reading it is an error) ...
            UNION {{<<u, H("="), P(Var(k))>> : k \in ArgNames(u)} : u \in ArgUses}
            \* ... and an outer variable of that name (assigned, or from the data map) keeps its value
            \cup UNION {{<<Assign(k, StrL("outer"), 1), u, H("="), P(Var(k))>> : k \in ArgNames(u)} : u \in {x \in ArgUses : \A i \in 1..Len(x.args) : x.args[i].ex.k = "lit" => x.args[i].ex.c = "str"}}
            \* the same name with values of two types in two uses: each use has its own scope
            \cup {<<u1, H(","), u2>> : u1 \in ArgUses, u2 \in ArgUses}
            \cup {<<Each("x", Var("xs"), <<u, H(";")>>, NoElse, 1), Assign("name", BoolL(TRUE), 1), P(Var("name"))>> : u \in ArgUses}
\* 'loop' as an argument name: refused like every other way of binding that name (outside and inside a loop)
LoopArg04 == {<<H("a"), Comp(Alias("plain"), <<Arg("loop", v)>>, <<>>, 1), H("z")>> : v \in {IntL(4), ObjL(<<>>), StrL("s")}}
             \cup {<<Each("x", Var("xs"), <<Comp(Alias("plain"), <<Arg("name", Var("x")), Arg("loop", v)>>, <<>>, 1)>>, NoElse, 1)>> : v \in {IntL(4), Var("loop")}}
\* "visible ... in blocks nested inside it": a component used inside a block sees that block's names (loop variables, the
\* loop object, names assigned in an @if branch) without receiving them as arguments
Visible04 == {<<Each("x", Var("xs"), <<Comp(Alias("echo"), <<>>, <<>>, 1)>>, NoElse, 1)>>,
              <<If(<<Br(Var("yes"), <<Assign("name", StrL("loc"), 1), Comp(Alias("plain"), <<>>, <<>>, 1)>>)>>, NoElse, 1)>>,
              <<For(Assign("name", IntL(0), 1), Bin("<", Var("name"), IntL(2)), Post("++", Var("name")), <<Comp(Alias("plain"), <<>>, <<>>, 1)>>, NoElse, 1)>>,
              <<Each("x", Var("xs"), <<If(<<Br(Var("yes"), <<Assign("name", Bin("+", Var("x"), StrL("!")), 1), Comp(Alias("def"), <<>>, <<Sl("", <<Comp(Alias("plain"), <<>>, <<>>, 1)>>)>>, 1)>>)>>, NoElse, 1)>>, NoElse, 1)>>,
              <<Assign("name", StrL("top"), 1), Comp(Alias("plain"), <<>>, <<>>, 1), Comp(Alias("plain"), <<Arg("z", IntL(1))>>, <<>>, 1)>>}
Good04 == {[tree |-> Tree07(pb), page |-> "home", d |-> Data07, tags |-> <<"c04", "component-arguments">>] : pb \in Vanish04 \cup LoopArg04 \cup Visible04}

(* ---------- C18: template names that themselves end in the extension (file layouts/base.tw.tw is the template layouts/base.tw) ---------- *)
Dotted18 ==
  {[tree |-> [n \in {"home", "list", "layouts/base.tw", "components/menu", "components/menu.tw", "oops.tw"} |->
                CASE n = "home" -> Tpl(Ref("layouts/base.tw"), <<InsertB("content", <<H("page:"), P(Var("who"))>>, 1), InsertE("title", StrL("t"), 1)>>)
                  [] n = "list" -> Tpl(NoUse, <<H("<ul>"), Comp(Ref("components/menu"), <<>>, <<>>, 1), H("</ul><ol>"), Comp(Ref("components/menu.tw"), <<>>, <<>>, 1), H("</ol>")>>)
                  [] n = "layouts/base.tw" -> Tpl(NoUse, <<H("<html>"), Reserve("title", 1), H("|"), Reserve("content", 1), H("</html>")>>)
                  [] n = "components/menu" -> Tpl(NoUse, <<H("plain menu")>>)
                  [] n = "components/menu.tw" -> Tpl(NoUse, <<H("dotted menu")>>)
                  [] n = "oops.tw" -> Tpl(NoUse, <<H("x"), P(Var("zz"))>>)],
    page |-> pg, d |-> Data07, tags |-> <<"c18", "name-ends-in-extension">>] : pg \in {"home", "list", "oops.tw"}}

Cases == CASE Family \in {"c06", "c06uselast", "c06usemid"} -> Good06 \cup Bad06
           [] Family = "c18dotted" -> Dotted18
           [] Family = "c04comp" -> Good04
           [] Family = "c07collide" -> Collide07
           [] Family = "c10tree" -> Esc10
           [] Family = "c07" -> Good07 \cup InLayout07 \cup Bad07
           [] Family = "c07tight" -> {c \in Good07 \cup InLayout07 : \E n \in DOMAIN c.tree : \E u \in ToSet(Collect(c.tree[n].body, "comp")) : u.args # <<>>}
           [] Family \in {"c07lines", "c07comment"} -> {c \in Good07 \cup InLayout07 : \E n \in DOMAIN c.tree : Collect(c.tree[n].body, "comp") # <<>>}

(* ------------------------------ running a case ------------------------------ *)
Faulty(t) == {n \in DOMAIN t : ~LinkFile(t, n).ok}
Init == \E c \in Cases :
          /\ cas = c
          /\ IF Faulty(c.tree) # {}
             THEN /\ prog = <<>> /\ ctrl = <<>> /\ env = <<<<>>>> /\ out = <<>> /\ status = "loaderr" /\ why = "" /\ eline = 0
             ELSE LET r == LinkFile(c.tree, c.page) IN
                  IF r.useInLayout
                  THEN /\ prog = <<>> /\ ctrl = <<>> /\ env = <<<<>>>> /\ out = <<>> /\ status = "err" /\ why = "layout uses a layout" /\ eline = 0
                  ELSE EvalInit(r.prog, c.d)
Next == Step /\ UNCHANGED cas
Spec == Init /\ [][Next]_vars /\ WF_vars(Next)
Terminates == <>(status # "run")

RECURSIVE Enc(_)
Enc(v) == CASE v.t = "int" -> [t |-> "int", b |-> v.ib, o |-> v.io]
            [] v.t = "float" -> [t |-> "float", n |-> v.fn, e |-> v.fe]
            [] v.t = "str" -> [t |-> "str", v |-> v.s]
            [] v.t = "bool" -> [t |-> "bool", v |-> v.bv]
            [] v.t = "nil" -> [t |-> "nil"]
            [] v.t = "arr" -> [t |-> "arr", v |-> [i \in 1..Len(v.es) |-> Enc(v.es[i])]]
            [] v.t = "obj" -> [t |-> "obj", v |-> [i \in 1..Len(v.ps) |-> [k |-> v.ps[i].pk, v |-> Enc(v.ps[i].pv)]]]
EncData(bs) == [i \in 1..Len(bs) |-> [k |-> bs[i].n, v |-> Enc(bs[i].v)]]

\* where a file's @use is written: before everything else, after everything else, or after the first statement (a page
\* "that declares @use(L)" declares it wherever the directive stands)
UsePos == "first"
PosLast == "last"
PosMid == "mid"
FileSrc(f) == IF f.kind = "bad" THEN f.src
              ELSE IF f.use = NoUse THEN SrcSeq(f.body)
              ELSE LET u == "@use(\"" \o Written(f.use) \o "\")" IN
                   CASE UsePos = "last" -> SrcSeq(f.body) \o u
                     [] UsePos = "mid" /\ f.body # <<>> -> SrcSeq(<<f.body[1]>>) \o u \o SrcSeq(Tail(f.body))
                     [] OTHER -> u \o SrcSeq(f.body)
Files(t) == LET ns == SetToSeq(DOMAIN t) IN [i \in 1..Len(ns) |-> [name |-> ns[i], src |-> FileSrc(t[ns[i]])]]
LoadExpect(t) == IF Faulty(t) = {} THEN [ok |-> TRUE, names |-> SetToSeq({n \in DOMAIN t : ~LinkFile(t, n).layout})]
                 ELSE [ok |-> FALSE, mentions |-> SetToSeq(UNION {{LinkFile(t, n).file, LinkFile(t, n).what} : n \in Faulty(t)})]
Expectation == CASE status = "done" /\ Family = "c07collide" -> [kind |-> "errorout", out |-> Output, why |-> "argument named like a visible variable of another type"]
                 [] status = "done" -> [kind |-> "out", out |-> Output]
                 [] status = "err" -> [kind |-> "err", why |-> why]
                 [] OTHER -> [kind |-> "any"]
Record == [files |-> Files(cas.tree), cfg |-> [dir |-> "tpl", ext |-> ".tw"], load |-> LoadExpect(cas.tree),
           ops |-> IF status = "loaderr" THEN <<>> ELSE <<[op |-> "String", name |-> cas.page, data |-> EncData(cas.d), expect |-> Expectation,
                                                         \* a fault in the page itself is reported with the page's own path (C13, C18)
                                                         path |-> IF Family = "c18dotted" /\ status = "err" THEN cas.page ELSE ""]>>,
           tags |-> cas.tags]
Gen == (status # "run" /\ Emit_) => PrintT(ToJson(Record))
=============================================================================
