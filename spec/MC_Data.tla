------------------------------- MODULE MC_Data -------------------------------
(***************************************************************************)
(* TwData: the universe of Go values a caller may pass as data (C12, C09)  *)
(* and the intended conversion Conv into template values.                  *)
(*                                                                         *)
(*   GoVal ::= bool | string | int(width, which) | float(width, n, e)      *)
(*           | nil interface | ptr(GoVal | nil) | slice(elems, typed)      *)
(*           | map(string -> GoVal) | struct(fields: name, exported, val)  *)
(*           | unsupported(chan | func | complex | array | map with        *)
(*             non-string keys)                                            *)
(*                                                                         *)
(* Integers are symbolic (width, which in {min, max, zero, five}) because  *)
(* TLC integers are 32-bit; their printed forms come from a table.         *)
(* The harness materialises each GoVal with reflect (StructOf, New,        *)
(* MakeSlice, MakeMap) and renders {{ d<path> }} for every access path.    *)
(***************************************************************************)
EXTENDS TwValues, Json, FiniteSets

CONSTANTS Family, Emit_
VARIABLES cas, rec
vars == <<cas, rec>>

GBool(b) == [g |-> "bool", b |-> b]
GStr(s) == [g |-> "string", s |-> s]
GInt(w, which) == [g |-> "int", w |-> w, which |-> which]
GFloat(w, n, e) == [g |-> "float", fw |-> w, n |-> n, e |-> e]
GNil == [g |-> "nil"]
GPtr(x) == [g |-> "ptr", to |-> <<x>>]
GPtrNil(w) == [g |-> "ptr", to |-> <<>>, w |-> w]       \* a nil pointer of element type w
GSlice(es) == [g |-> "slice", es |-> es, typed |-> FALSE]
GTyped(es) == [g |-> "slice", es |-> es, typed |-> TRUE] \* []T of the elements' common type
GMap(ps) == [g |-> "map", ps |-> ps]                     \* sequence of [k, v]
GStruct(fs) == [g |-> "struct", fs |-> fs]               \* sequence of [n, x (exported), v]
GBad(u) == [g |-> "unsupported", u |-> u]
GNamed(u) == [g |-> "named", u |-> u]                  \* a value of a named basic type (type ID uint32, type Status int, type Label string, ...)
GSameName == [g |-> "samename"]                         \* []any{row{Title}, row{Name, Count}}: two struct types that are both called "row"
GEmb(u) == [g |-> "embedded", u |-> u]                \* type Page struct { Base; Name string } - u: how Base is embedded (value, ptr, ptrnil, unexported)
GKeyed(u) == [g |-> "keyed", u |-> u]                \* maps whose key type is not plain string: type K string, any holding strings
GShared(u) == [g |-> "shared", u |-> u]              \* one pointer at two positions of a value that sits behind another pointer
GNilSlice == [g |-> "nilslice"]                          \* var s []string: a slice (of length 0), not a nil value
GNilMap == [g |-> "nilmap"]                              \* var m map[string]int
Fld(n, x, v) == [n |-> n, x |-> x, v |-> v]
KV(k, v) == [k |-> k, v |-> v]

IntShow(w, which) ==
  CASE which = "zero" -> "0" [] which = "five" -> "5"
    [] which = "max" -> (CASE w = "int8" -> "127" [] w = "int16" -> "32767" [] w = "int32" -> "2147483647"
                           [] w \in {"int64", "int", "uint64", "uint"} -> "9223372036854775807"
                           [] w = "uint8" -> "255" [] w = "uint16" -> "65535" [] w = "uint32" -> "4294967295")
    [] which = "min" -> (CASE w = "int8" -> "-128" [] w = "int16" -> "-32768" [] w = "int32" -> "-2147483648"
                           [] w \in {"int64", "int"} -> "-9223372036854775808" [] OTHER -> "0")
Widths == {"int8", "int16", "int32", "int64", "int", "uint8", "uint16", "uint32", "uint64", "uint"}

\* ---- the intended conversion (C12). Template integers are kept symbolic: [t |-> "int", sym |-> printed form] ----
RECURSIVE Conv(_)
ConvSeq(es) == [i \in 1..Len(es) |-> Conv(es[i])]
AnyBad(vs, t) == \E i \in 1..Len(vs) : vs[i].t = t
Conv(v) ==
  CASE v.g = "bool" -> B(v.b)
    [] v.g = "string" -> S(v.s)
    [] v.g = "int" -> [t |-> "int", sym |-> IntShow(v.w, v.which)]
    [] v.g = "float" -> NormF(v.n, v.e)
    [] v.g = "nil" -> Nil
    [] v.g = "ptr" -> IF v.to = <<>> THEN [t |-> "nilptr"] ELSE Conv(v.to[1])      \* pointers are transparent
    [] v.g = "slice" -> LET es == ConvSeq(v.es) IN
                        IF AnyBad(es, "err") THEN Err("unsupported") ELSE IF AnyBad(es, "nilptr") \/ AnyBad(es, "unspec") THEN Unspec ELSE A(es)
    [] v.g = "map" -> LET vs == [i \in 1..Len(v.ps) |-> Conv(v.ps[i].v)] IN
                      IF AnyBad(vs, "err") THEN Err("unsupported") ELSE IF AnyBad(vs, "nilptr") \/ AnyBad(vs, "unspec") THEN Unspec
                      ELSE O([i \in 1..Len(vs) |-> [pk |-> v.ps[i].k, pv |-> vs[i]]])
    [] v.g = "struct" -> LET ex == SelectSeq(v.fs, LAMBDA f : f.x)          \* unexported fields are not reachable
                             vs == [i \in 1..Len(ex) |-> Conv(ex[i].v)] IN
                         IF AnyBad(vs, "err") THEN Err("unsupported") ELSE IF AnyBad(vs, "nilptr") \/ AnyBad(vs, "unspec") THEN Unspec
                         ELSE O([i \in 1..Len(vs) |-> [pk |-> ex[i].n, pv |-> vs[i]]])
    [] v.g = "named" -> Unspec          \* a number / string like its underlying type, or an error: never a crash (C09)
    [] v.g = "samename" -> A(<<O(<<[pk |-> "Title", pv |-> S("T1")]>>), O(<<[pk |-> "Name", pv |-> S("N2")], [pk |-> "Count", pv |-> [t |-> "int", sym |-> "2"]]>>)>>)
    \* an embedded struct is a field named after its type; whether the fields it promotes are reachable from the outer value as
    \* well is not fixed by C12 (no path is generated for them). A nil embedded pointer: as for every nil pointer, never a crash.
    [] v.g = "embedded" -> IF v.u = "ptrnil" THEN Unspec
                           ELSE IF v.u = "unexported" THEN O(<<[pk |-> "Name", pv |-> S("n")]>>)
                           ELSE O(<<[pk |-> "Base", pv |-> O(<<[pk |-> "Title", pv |-> S("t")]>>)], [pk |-> "Name", pv |-> S("n")]>>)
    \* a map whose key type is a declared string type is a string-keyed map (C12); keys behind 'any': a defined result or an
    \* error, never a crash (C09)
    [] v.g = "keyed" -> IF v.u = "namedstring" THEN O(<<[pk |-> "k", pv |-> S("v")]>>) ELSE Unspec
    \* the same pointer reached twice shows the same content twice (C12: same shape)
    [] v.g = "shared" -> (CASE v.u = "struct" -> O(<<[pk |-> "A", pv |-> O(<<[pk |-> "Name", pv |-> S("c")]>>)], [pk |-> "B", pv |-> O(<<[pk |-> "Name", pv |-> S("c")]>>)]>>)
                            [] v.u = "slice" -> A(<<[t |-> "int", sym |-> "5"], [t |-> "int", sym |-> "5"], [t |-> "int", sym |-> "5"]>>)
                            [] v.u = "map" -> O(<<[pk |-> "a", pv |-> O(<<[pk |-> "Name", pv |-> S("c")]>>)], [pk |-> "b", pv |-> O(<<[pk |-> "Name", pv |-> S("c")]>>)]>>)
                            [] v.u = "nested" -> O(<<[pk |-> "Inner", pv |-> A(<<O(<<[pk |-> "Name", pv |-> S("c")]>>), O(<<[pk |-> "Name", pv |-> S("c")]>>)>>)], [pk |-> "Name", pv |-> S("n")]>>))
    [] v.g = "nilslice" -> A(<<>>)
    [] v.g = "nilmap" -> O(<<>>)
    [] v.g = "unsupported" -> Err("unsupported")
\* a nil pointer at the top: a defined result (nil) or an error, never a crash (C09)
Top(v) == LET c == Conv(v) IN IF c.t = "nilptr" THEN Unspec ELSE c

ShowD(v) == IF v.t = "int" /\ "sym" \in DOMAIN v THEN v.sym ELSE Show(v)
RECURSIVE PrintableD(_)
PrintableD(v) == CASE v.t \in {"err", "unspec", "nilptr"} -> FALSE
                   [] v.t = "arr" -> FALSE        \* arrays are printed through their elements' paths
                   [] v.t = "obj" -> FALSE
                   [] OTHER -> TRUE

\* ---- access paths: every way to reach every node of the converted value ----
LowerFirst(n) == CASE n = "Title" -> "title" [] n = "Count" -> "count" [] n = "Name" -> "name" [] n = "Age" -> "age" [] n = "Inner" -> "inner" [] n = "Tags" -> "tags"
                   [] n = "Base" -> "base" [] n = "A" -> "a" [] n = "B" -> "b" [] n = "Val" -> "val" [] n = "K" -> "k" [] n = "P" -> "p" [] n = "Q" -> "q" [] OTHER -> n
RECURSIVE Paths(_, _)
Paths(v, depth) ==     \* set of [p |-> path source suffix, v |-> value reached]
  {[p |-> "", v |-> v]} \cup
  (IF depth = 0 THEN {}
   ELSE CASE v.t = "arr" -> UNION {{[p |-> "[" \o ToString(i - 1) \o "]" \o q.p, v |-> q.v] : q \in Paths(v.es[i], depth - 1)} : i \in 1..Len(v.es)}
          [] v.t = "obj" -> UNION {{[p |-> acc \o q.p, v |-> q.v] :
                                      q \in Paths(v.ps[i].pv, depth - 1),
                                      acc \in {"." \o v.ps[i].pk, "[\"" \o v.ps[i].pk \o "\"]"}
                                             \cup (IF HasKey(v, LowerFirst(v.ps[i].pk)) /\ LowerFirst(v.ps[i].pk) # v.ps[i].pk THEN {}
                                                   ELSE {"." \o LowerFirst(v.ps[i].pk), "[\"" \o LowerFirst(v.ps[i].pk) \o "\"]"})} : i \in 1..Len(v.ps)}
          [] OTHER -> {})

\* ---- the families ----
\* "strings print their exact bytes": also bytes that are no UTF-8 ($x$ a Latin-1 byte, $c$ a character cut off after two
\* of three bytes, $k$ a lone continuation byte)
OddStrs == {GStr("a$x$b"), GStr("$c$"), GStr("$k$z$x$"), GStr("$e$$c$")}
OddColls == {GSlice(<<GStr("$x$"), GStr("ok")>>), GMap(<<KV("k", GStr("a$c$"))>>), GStruct(<<Fld("Name", TRUE, GStr("$k$"))>>), GPtr(GStr("$x$y")),
             GTyped(<<GStr("p$x$"), GStr("q")>>)}
Scalars == OddStrs \cup {GBool(TRUE), GBool(FALSE), GStr(""), GStr("a$e$ b"), GStr("<i>&amp;</i>"), GNil, GFloat(32, 5, 1), GFloat(64, -1, 2),
            GFloat(64, 3, 0), GFloat(32, 0, 0)}
           \cup {GInt(w, x) : w \in Widths, x \in {"min", "max", "zero", "five"}}
S0 == {GBool(TRUE), GStr("a$e$ b"), GInt("int8", "min"), GInt("uint32", "max"), GInt("int64", "max"), GFloat(32, 5, 1), GNil, GInt("int", "five")}
S1 == {GStr("s"), GInt("uint16", "max")}
Containers(X, Y) ==
     {GPtr(x) : x \in X} \cup {GPtr(GPtr(x)) : x \in Y}
\cup {GSlice(<<x, y>>) : x \in X, y \in Y} \cup {GSlice(<<>>), GTyped(<<GInt("int16", "five"), GInt("int16", "min")>>), GTyped(<<GStr("p"), GStr("q")>>)}
\cup {GMap(<<KV("k", x), KV("Zed", y)>>) : x \in X, y \in Y} \cup {GMap(<<>>)}
\cup {GStruct(<<Fld("Name", TRUE, x), Fld("age", FALSE, y), Fld("Inner", TRUE, y)>>) : x \in X, y \in Y}
\cup {GStruct(<<Fld("hidden", FALSE, x)>>) : x \in Y} \cup {GStruct(<<>>)}
G1 == Containers(S0, S1)
G1small == Containers({GStr("a$e$ b"), GInt("int8", "min"), GNil}, {GInt("uint16", "max")})
G2 == Containers(G1small, {GSlice(<<GInt("int", "five")>>), GStruct(<<Fld("Val", TRUE, GBool(TRUE)), Fld("p", FALSE, GNil)>>)})
\* nil at every pointer and interface position
NilPtrs == {GPtrNil(w) : w \in {"int", "string", "struct"}}
           \cup {GSlice(<<GPtrNil("int"), GInt("int", "five")>>), GMap(<<KV("k", GPtrNil("string"))>>),
                 GStruct(<<Fld("P", TRUE, GPtrNil("int")), Fld("Name", TRUE, GStr("n"))>>), GPtr(GPtrNil("int")),
                 GStruct(<<Fld("P", TRUE, GPtrNil("struct"))>>), GSlice(<<GNil, GNil>>), GMap(<<KV("k", GNil)>>),
                 GStruct(<<Fld("Q", TRUE, GNil)>>)}
\* keys that differ only in the case of their first letter: the exact name wins over the first-letter fallback
CaseKeys == {GMap(<<KV("name", GInt("int", "five")), KV("Name", GStr("upper"))>>), GMap(<<KV("Name", GStr("upper")), KV("name", GInt("int", "zero"))>>),
             GMap(<<KV("k", GMap(<<KV("q", GBool(TRUE)), KV("Q", GBool(FALSE))>>))>>),
             GStruct(<<Fld("Inner", TRUE, GMap(<<KV("val", GStr("lo")), KV("Val", GStr("hi"))>>))>>)}
\* unsupported kinds at every depth
Bads == {GBad(u) : u \in {"chan", "func", "complex", "array", "mapint", "uintptr", "mapintempty", "mapintnil", "chan-nil", "func-nil", "mapany", "mapanymixed"}}
BadAt(b) == {GPtr(GStruct(<<Fld("Name", TRUE, GStr("n")), Fld("Val", TRUE, b)>>)), GSlice(<<GStruct(<<Fld("Val", TRUE, b)>>)>>),
             GMap(<<KV("k", GStruct(<<Fld("Val", TRUE, b), Fld("Name", TRUE, GStr("n"))>>))>>), GPtr(GPtr(GStruct(<<Fld("Val", TRUE, b)>>))),
             b, GPtr(b), GSlice(<<GInt("int", "five"), b>>), GMap(<<KV("k", b)>>), GStruct(<<Fld("Name", TRUE, GStr("n")), Fld("Val", TRUE, b)>>),
             GSlice(<<GMap(<<KV("k", GSlice(<<b>>))>>)>>), GStruct(<<Fld("Inner", TRUE, GStruct(<<Fld("Val", TRUE, b)>>))>>),
             GMap(<<KV("a", GInt("int", "five")), KV("b", GPtr(GSlice(<<b>>)))>>)}
\* an unsupported value in an UNEXPORTED field is not reachable and is not converted
HiddenBad == {GStruct(<<Fld("Name", TRUE, GStr("n")), Fld("ch", FALSE, GBad("chan"))>>)}

\* Go's nil slices and nil maps are empty collections (C12: same shape; C02: empty arrays and objects are truthy)
NamedVals == UNION {{GNamed(u), GPtr(GNamed(u)), GSlice(<<GNamed(u)>>), GMap(<<KV("k", GNamed(u))>>), GStruct(<<Fld("Val", TRUE, GNamed(u))>>)} :
                       u \in {"uint32", "int", "string", "float64", "bool", "uint8", "uintptr-named"}}
Embedded == UNION {{GEmb(u), GPtr(GEmb(u)), GSlice(<<GEmb(u)>>), GMap(<<KV("k", GEmb(u))>>)} : u \in {"value", "ptr", "ptrnil", "unexported"}}
Shared == {GShared(u) : u \in {"struct", "slice", "map", "nested"}} \cup {GSlice(<<GShared("struct")>>)}
Keyed == {GKeyed(u) : u \in {"namedstring", "anystrings"}} \cup {GPtr(GKeyed("namedstring")), GSlice(<<GKeyed("anystrings")>>)}
NilColls == NamedVals \cup Embedded \cup Shared \cup Keyed \cup {GSameName, GPtr(GSameName), GNilSlice, GNilMap, GPtr(GNilSlice), GSlice(<<GNilSlice, GNilMap>>), GMap(<<KV("k", GNilSlice), KV("m", GNilMap)>>),
             GStruct(<<Fld("Tags", TRUE, GNilSlice), Fld("Inner", TRUE, GNilMap), Fld("Name", TRUE, GStr("n"))>>)}
Values == CASE Family = "scalars" -> Scalars
            [] Family = "g1" -> G1 \cup NilPtrs \cup CaseKeys \cup NilColls \cup OddColls
            [] Family = "g2" -> G2
            [] Family = "bad" -> UNION {BadAt(b) : b \in Bads} \cup HiddenBad

ExpectAt(q) == IF IsErr(q.v) THEN [kind |-> "err", why |-> q.v.why]
               ELSE IF PrintableD(q.v) THEN [kind |-> "out", out |-> ShowD(q.v)]
               ELSE [kind |-> "any"]
\* reads that must fail: an unexported field, a missing key
Misses(v) == IF v.g = "struct" THEN {[p |-> "." \o f.n, v |-> Err("unexported field is not reachable")] : f \in {v.fs[i] : i \in {j \in 1..Len(v.fs) : ~v.fs[j].x}}}
                                    \cup {[p |-> ".nope", v |-> Err("no such field")]}
             ELSE IF v.g = "map" THEN {[p |-> ".nope", v |-> Err("no such key")], [p |-> "[\"nope\"]", v |-> Err("no such key")]}
             \* a position past the end of a slice (of an empty or nil slice: position 0): a defined result or an error, never a crash
             ELSE IF v.g = "slice" THEN {[p |-> "[" \o ToString(Len(v.es)) \o "]", v |-> Unspec], [p |-> "[-1]", v |-> Unspec]}
             ELSE IF v.g = "nilslice" THEN {[p |-> "[0]", v |-> Unspec]}
             ELSE IF v.g = "embedded" /\ v.u = "unexported" THEN {[p |-> ".base", v |-> Err("unexported field is not reachable")]}
             ELSE {}
\* what a node is, beyond how it prints: its truth value (C02) and, for arrays, its length
TruthD(v) == IF v.t = "int" /\ "sym" \in DOMAIN v THEN v.sym # "0" ELSE Truthy(v)
Probes(v, q) == IF q.v.t \in {"err", "unspec", "nilptr"} THEN {}
                ELSE {[g |-> v, path |-> q.p, probe |-> "truth", expect |-> [kind |-> "out", out |-> IF TruthD(q.v) THEN "T" ELSE "F"], tags |-> <<Family, v.g, "truth">>]}
                     \cup (IF q.v.t = "arr" THEN {[g |-> v, path |-> q.p, probe |-> "len", expect |-> [kind |-> "out", out |-> ToString(Len(q.v.es))], tags |-> <<Family, v.g, "len">>]}
                           ELSE {})
\* a map's keys are reachable by name - the empty name too (index syntax; dot syntax cannot spell it)
EmptyKey == {[g |-> GMap(<<KV("", GStr("empty")), KV("k", GInt("int", "five"))>>), path |-> pth, probe |-> "", expect |-> [kind |-> "out", out |-> o], tags |-> <<Family, "map", "empty-key">>] :
               <<pth, o>> \in {<<"[\"\"]", "empty">>, <<"[\"k\"]", "5">>, <<".k", "5">>}}
            \cup {[g |-> GStruct(<<Fld("Inner", TRUE, GMap(<<KV("", GInt("int", "five"))>>))>>), path |-> ".inner[\"\"]", probe |-> "", expect |-> [kind |-> "out", out |-> "5"], tags |-> <<Family, "struct", "empty-key">>]}
Cases == (IF Family = "g1" THEN EmptyKey ELSE {}) \cup UNION {LET c == Top(v) IN
                IF IsErr(c) THEN {[g |-> v, path |-> "", probe |-> "", expect |-> [kind |-> "err", why |-> "unsupported value in the data"], tags |-> <<Family, "unsupported">>]}
                ELSE IF IsUnspec(c) THEN {[g |-> v, path |-> "", probe |-> "", expect |-> [kind |-> "any"], tags |-> <<Family, "nil-pointer">>]}
                ELSE {[g |-> v, path |-> q.p, probe |-> "", expect |-> ExpectAt(q), tags |-> <<Family, v.g>>] : q \in Paths(c, 3) \cup Misses(v)}
                     \cup UNION {Probes(v, q) : q \in Paths(c, 3)}
                : v \in Values}

\* design-level lemma: conversion preserves shape -- every exported field / key / element is reachable
SameShape == \A v \in Values : LET c == Top(v) IN
               (v.g = "map" /\ c.t = "obj") => Len(c.ps) = Len(v.ps)
ASSUME SameShape

Init == cas \in Cases /\ rec = FALSE
Next == ~rec /\ rec' = TRUE /\ UNCHANGED cas
Spec == Init /\ [][Next]_vars
Gen == (rec /\ Emit_) => PrintT(ToJson(cas))
=============================================================================
