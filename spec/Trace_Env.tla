------------------------------ MODULE Trace_Env ------------------------------
(***************************************************************************)
(* Trace validation of the evaluator's scope machine (C04, C03).           *)
(* The trace is recorded from the real code by the verif hooks of packages *)
(* object and evaluator: one event per scope operation                     *)
(*   reset                      a new program starts                        *)
(*   new(id)                    object.NewEnv                               *)
(*   enclose(id, outer)         object.NewEnclosedEnv                       *)
(*   set(id, key, type, ok)     Env.Set and whether the value was stored   *)
(*   loop(id, index, iter, first, last)   Env.SetLoopVar                     *)
(*   read(id, key, ok, type)    the evaluator's identifier lookup           *)
(* The model keeps, per scope, its outer scope and the TYPE of every name  *)
(* bound in it (the abstract state of machine E's env, projected to types) *)
(* and predicts every logged result from it:                               *)
(*   - Set stores exactly when the name is not 'loop' and is not visible    *)
(*     with another type (TwEval!SetVar);                                   *)
(*   - a lookup finds the innermost binding along the chain;               *)
(*   - the loop object of pass i has index = i-1, iter = i, first = (i=1), *)
(*     and passes of one loop scope are numbered consecutively until last. *)
(* Disagreements are collected as verdict records, the trace is never      *)
(* aborted: after one the rest of that program is skipped.                 *)
(*   kind "retyped", "loop-assigned", "loop-meta": the recorded behaviour   *)
(*         is one C04 / C03 forbid, whatever the implementation looks like  *)
(*   kind "drift": the model and the code disagree on something no         *)
(*         property fixes by itself (decided by the replay families)       *)
(***************************************************************************)
EXTENDS Integers, Sequences, FiniteSets, TLC, Json

CONSTANTS TracePath
Trace == ndJsonDeserialize(TracePath)

VARIABLES envs,    \* sequence, one record per scope created in this program: [outer, tys, pass, closed]
          l,       \* position in the trace
          skip,    \* a verdict was given for this program: ignore its remaining events
          bad      \* verdict records
vars == <<envs, l, skip, bad>>

NoVars == [x \in {} |-> ""]
Scope0 == [outer |-> 0, tys |-> NoVars, pass |-> 0, closed |-> FALSE]

RECURSIVE Lookup(_, _, _)
Lookup(es, id, k) == IF id = 0 THEN "none"
                     ELSE IF k \in DOMAIN es[id].tys THEN es[id].tys[k]
                     ELSE Lookup(es, es[id].outer, k)
Bind(es, id, k, t) == [es EXCEPT ![id].tys = [x \in DOMAIN @ \cup {k} |-> IF x = k THEN t ELSE @[x]]]
Known(id) == id \in 1..Len(envs)

\* C04 on the model state. Scopes are never logged as ended, so a finished block's scope stays in envs: type stability
\* is a property of each Set at the time it happens (the "retyped" verdict of Step), not of all scopes ever created.
\* 'loop' is only ever a loop object and never in a root scope:
LoopReserved == \A id \in 1..Len(envs) : "loop" \in DOMAIN envs[id].tys => (envs[id].tys["loop"] = "OBJECT" /\ envs[id].outer # 0)

Verdict(kind, ev, detail) == [line |-> l, prog |-> ev.prog, kind |-> kind, op |-> ev.op, key |-> ev.key, detail |-> detail]
Reject(kind, ev, detail) == /\ bad' = (IF Len(bad) < 40 THEN Append(bad, Verdict(kind, ev, detail)) ELSE bad)
                            /\ skip' = TRUE /\ UNCHANGED envs
Accept(es) == envs' = es /\ UNCHANGED <<skip, bad>>

Step(ev) ==
  CASE ev.op = "reset" -> envs' = <<>> /\ skip' = FALSE /\ UNCHANGED bad
    [] skip -> UNCHANGED <<envs, skip, bad>>
    [] ev.op = "new" ->
         IF ev.id = Len(envs) + 1 THEN Accept(Append(envs, Scope0))
         ELSE Reject("drift", ev, "scopes are not numbered in order of creation")
    [] ev.op = "enclose" ->
         IF Known(ev.id) /\ ev.id = Len(envs) /\ ev.outer \in 1..(Len(envs) - 1) /\ envs[ev.id].outer = 0 /\ envs[ev.id].tys = NoVars
         THEN Accept([envs EXCEPT ![ev.id].outer = ev.outer])
         ELSE Reject("drift", ev, "an enclosed scope must be the newest scope and its outer scope an older one")
    [] ev.op = "set" ->
         IF ~Known(ev.id) THEN Reject("drift", ev, "unknown scope")
         ELSE LET seen == Lookup(envs, ev.id, ev.key)
                  legal == ev.key # "loop" /\ seen \in {"none", ev.type}
              IN IF ev.ok /\ ev.key = "loop" THEN Reject("loop-assigned", ev, "the name loop was assigned")
                 ELSE IF ev.ok /\ ~legal THEN Reject("retyped", ev, "visible as " \o seen \o ", stored as " \o ev.type)
                 ELSE IF ~ev.ok /\ legal THEN Reject("drift", ev, "a legal assignment was refused")
                 ELSE IF ev.ok THEN Accept(Bind(envs, ev.id, ev.key, ev.type))
                 ELSE Accept(envs)
    [] ev.op = "loop" ->
         IF ~Known(ev.id) THEN Reject("drift", ev, "unknown scope")
         ELSE IF ev.type # "OBJECT" \/ ev.iter # ev.index + 1 \/ ev.first # (ev.index = 0) \/ ev.index < 0
              THEN Reject("loop-meta", ev, "index " \o ToString(ev.index) \o " iter " \o ToString(ev.iter) \o " first " \o ToString(ev.first))
         ELSE IF envs[ev.id].closed THEN Reject("loop-meta", ev, "a pass after the one marked last")
         ELSE IF ev.index # envs[ev.id].pass THEN Reject("drift", ev, "passes of one loop scope are not numbered consecutively")
         ELSE Accept([Bind(envs, ev.id, "loop", "OBJECT") EXCEPT ![ev.id].pass = @ + 1, ![ev.id].closed = ev.last])
    [] ev.op = "read" ->
         IF ~Known(ev.id) THEN Reject("drift", ev, "unknown scope")
         ELSE LET seen == Lookup(envs, ev.id, ev.key) IN
              IF ev.ok # (seen # "none") \/ (ev.ok /\ ev.type # seen)
              THEN Reject("drift", ev, "the model sees " \o seen \o ", the code " \o (IF ev.ok THEN ev.type ELSE "nothing"))
              ELSE Accept(envs)
    [] OTHER -> Reject("drift", ev, "unknown event")

Init == envs = <<>> /\ l = 1 /\ skip = FALSE /\ bad = <<>>
Next == l <= Len(Trace) /\ Step(Trace[l]) /\ l' = l + 1
Spec == Init /\ [][Next]_vars

Report == [lines |-> Len(Trace), consumed |-> l - 1, bad |-> bad]
Gen == l > Len(Trace) => PrintT(ToJson(Report))
=============================================================================
