------------------------------- MODULE TwLoader -------------------------------
EXTENDS TwLink

(***************************************************************************)
(* The loader as a state machine (textwire.NewTemplate): walk the          *)
(* directory, then process the found files one at a time; the first fault  *)
(* aborts the load (all or nothing).  PickFile chooses ANY unprocessed     *)
(* file when DevK.MapOrder (Go map iteration, as coded); the intended      *)
(* design processes files in a fixed order so that the outcome is a        *)
(* function of the tree (C14).                                             *)
(***************************************************************************)
CONSTANTS DevK
DevKIntended == [MapOrder |-> FALSE]
DevKAsCoded == [MapOrder |-> TRUE]

VARIABLES tree, todo, loaded, lerr, phase
kvars == <<tree, todo, loaded, lerr, phase>>

NoErr == [ok |-> TRUE]
LoadInit(t) == /\ tree = t /\ todo = {} /\ loaded = {} /\ lerr = NoErr /\ phase = "walk"
Walk == /\ phase = "walk"
        /\ todo' = DOMAIN tree /\ phase' = "load"
        /\ UNCHANGED <<tree, loaded, lerr>>
\* a total order on names for the intended (deterministic) design: the order of a fixed enumeration
CONSTANTS NameOrder      \* sequence of all names that may occur, in processing order
Pos(n) == CHOOSE i \in 1..Len(NameOrder) : NameOrder[i] = n
MinName(X) == CHOOSE n \in X : \A m \in X : Pos(n) <= Pos(m)
PickFile(n) ==
  /\ phase = "load" /\ n \in todo
  /\ DevK.MapOrder \/ n = MinName(todo)
  /\ LET r == LinkFile(tree, n) IN
     IF r.ok THEN /\ loaded' = IF r.layout THEN loaded ELSE loaded \cup {n}
                  /\ todo' = todo \ {n} /\ UNCHANGED <<lerr, phase>>
     ELSE /\ lerr' = r /\ phase' = "failed" /\ UNCHANGED <<todo, loaded>>
  /\ UNCHANGED tree
Finish == /\ phase = "load" /\ todo = {} /\ phase' = "ready" /\ UNCHANGED <<tree, todo, loaded, lerr>>
LoadNext == Walk \/ (\E n \in todo : PickFile(n)) \/ Finish

Faulty(t) == {n \in DOMAIN t : ~LinkFile(t, n).ok}
\* C18: any faulty file => no Template and an error that identifies a faulty file; otherwise every non-layout is registered
AllOrNothing == /\ phase = "ready" => Faulty(tree) = {} /\ loaded = {n \in DOMAIN tree : ~LinkFile(tree, n).layout}
                /\ phase = "failed" => lerr.file \in Faulty(tree) \cup {LinkFile(tree, n).file : n \in Faulty(tree)}
\* C14: the outcome is a function of the tree
Deterministic == phase = "failed" => lerr = LinkFile(tree, MinName(Faulty(tree)))
LoadTerminates == <>(phase \in {"ready", "failed"})
=============================================================================
