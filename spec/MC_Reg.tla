------------------------------- MODULE MC_Reg -------------------------------
(***************************************************************************)
(* C20: the custom-function registry as a state machine.                   *)
(*   reg   receiver type -> name -> id of the function registered FIRST     *)
(*   hist  the operations so far, each with its predicted outcome          *)
(* Operations: Reg(t, n) (each instance carries a fresh function id that   *)
(* determines its canned result), Call(t, n, how) on a literal or on a     *)
(* variable, through the string API or through a loaded template, Load.    *)
(* Invariants: first registration wins and stays, types are independent,   *)
(* a built-in shadows a custom function, a registered function is callable *)
(* before and after Load.                                                  *)
(***************************************************************************)
EXTENDS Integers, Sequences, FiniteSets, TLC, Json

CONSTANTS T1, T2, MaxHist, Emit_
VARIABLES reg, loaded, hist
vars == <<reg, loaded, hist>>

Types == {"str", "arr", "int", "float", "bool"}
TypeName(t) == CASE t = "str" -> "STRING" [] t = "arr" -> "ARRAY" [] t = "int" -> "INTEGER" [] t = "float" -> "FLOAT" [] t = "bool" -> "BOOLEAN"
Builtin(t) == CASE t = "str" -> "upper" [] t = "arr" -> "len" [] t = "int" -> "abs" [] t = "float" -> "floor" [] t = "bool" -> "binary"
\* which of the names used here are built-ins of which receiver type (evaluator/func.go), and what they print on the
\* receiver the harness uses ("ab", [1, 2], -3, 2.5, true)
IsBuiltin(t, n) == \/ (n = "upper" /\ t = "str") \/ (n = "len" /\ t \in {"str", "arr", "int"})
                   \/ (n = "abs" /\ t \in {"int", "float"}) \/ (n = "floor" /\ t = "float") \/ (n = "binary" /\ t = "bool")
BuiltinOut(t, n) == CASE n = "upper" -> "AB"
                      [] n = "len" -> (CASE t = "str" -> "2" [] t = "arr" -> "2" [] t = "int" -> "1")
                      [] n = "abs" -> (IF t = "int" THEN "3" ELSE "2.5")
                      [] n = "floor" -> "2"
                      [] n = "binary" -> "1"
\* the canned result of function id i of type t, as it prints
Canned(t, i) == CASE t = "str" -> "R" \o ToString(i) [] t = "arr" -> ToString(i) \o ", x" [] t = "int" -> ToString(100 + i)
                  [] t = "float" -> ToString(i) \o ".5" [] t = "bool" -> (IF i % 2 = 1 THEN "1" ELSE "0")

Init == reg = [t \in Types |-> <<>>] /\ loaded = FALSE /\ hist = <<>>
Id == Len(hist) + 1
Has(t, n) == n \in DOMAIN reg[t]
DoReg(t, n) == /\ reg' = IF Has(t, n) THEN reg ELSE [reg EXCEPT ![t] = [x \in DOMAIN @ \cup {n} |-> IF x = n THEN Id ELSE @[x]]]
               /\ hist' = Append(hist, [op |-> "reg", t |-> t, n |-> n, id |-> Id, ok |-> ~Has(t, n)])
               /\ UNCHANGED loaded
CallExpect(t, n) == IF IsBuiltin(t, n) THEN [kind |-> "out", out |-> BuiltinOut(t, n)]        \* a built-in shadows a custom function
                    ELSE IF Has(t, n) THEN [kind |-> "out", out |-> Canned(t, reg[t][n])]
                    ELSE [kind |-> "err", why |-> "unregistered", has |-> <<n, TypeName(t)>>]
DoCall(t, n, onVar, viaTpl) ==
  /\ (viaTpl => loaded)
  /\ hist' = Append(hist, [op |-> "call", t |-> t, n |-> n, onVar |-> onVar, viaTpl |-> viaTpl, expect |-> CallExpect(t, n)])
  /\ UNCHANGED <<reg, loaded>>
DoLoad == /\ loaded' = TRUE /\ hist' = Append(hist, [op |-> "load"]) /\ UNCHANGED reg

Ts == {T1, T2}
Next == /\ Len(hist) < MaxHist
        /\ \/ \E t \in Ts, n \in {"f", Builtin(T1)} : DoReg(t, n)
           \/ \E t \in Ts, n \in {"f", "g", Builtin(T1)} : \E v \in BOOLEAN : DoCall(t, n, v, loaded)
           \/ DoLoad
Spec == Init /\ [][Next]_vars

\* ---- invariants ----
\* a successful registration is the one every later call sees: ids in reg never change once set
FirstWins == [][\A t \in Types : \A n \in DOMAIN reg[t] : n \in DOMAIN reg'[t] /\ reg'[t][n] = reg[t][n]]_vars
\* a registration for one type never touches another type
PerType == [][\A t \in Types : (\A k \in 1..Len(hist') : k > Len(hist) => (hist'[k].op = "reg" => hist'[k].t # t)) => reg'[t] = reg[t]]_vars
\* exactly the first Reg(t, n) of a history succeeds
RegOutcome == \A k \in 1..Len(hist) : hist[k].op = "reg" =>
                 (hist[k].ok <=> ~\E j \in 1..(k - 1) : hist[j].op = "reg" /\ hist[j].t = hist[k].t /\ hist[j].n = hist[k].n)
\* every call sees the first registration, before and after Load, unless a built-in of that name exists
CallOutcome == \A k \in 1..Len(hist) : hist[k].op = "call" =>
   LET first == {j \in 1..(k - 1) : hist[j].op = "reg" /\ hist[j].t = hist[k].t /\ hist[j].n = hist[k].n} IN
   IF IsBuiltin(hist[k].t, hist[k].n) THEN hist[k].expect.out = BuiltinOut(hist[k].t, hist[k].n)
   ELSE IF first = {} THEN hist[k].expect.kind = "err"
   ELSE hist[k].expect.out = Canned(hist[k].t, CHOOSE j \in first : \A i \in first : j <= i)

Gen == (Len(hist) = MaxHist /\ Emit_) => PrintT(ToJson([hist |-> hist, t1 |-> T1, t2 |-> T2]))
=============================================================================
