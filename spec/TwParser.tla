------------------------------- MODULE TwParser -------------------------------
(***************************************************************************)
(* Machine P: the statement level of parser/parser.go as a PlusCal program *)
(* with one procedure per parser function, over real token types.  The     *)
(* input is a concatenation of lexemes, each a fixed token list that       *)
(* leaves the lexer in text mode (so token lists compose), optionally      *)
(* ended by an "open" lexeme (a construct cut in the middle: the prefixes  *)
(* of C08).  Expressions: the whole Pratt loop of parseExpression with the *)
(* precedence table (atoms, prefix - and !, every binary operator, ?:,     *)
(* index, member access and calls, ++ / --, grouping, array and object     *)
(* literals).                                                              *)
(*                                                                         *)
(*   toks   the token types, EOF implied past the end                      *)
(*   i      index of curToken; peekToken is i + 1                          *)
(*   errs   recorded errors (parser.errors)                                *)
(*   nilp   ParseProgram returned nil                                      *)
(*   incode the lexer is in code mode at the end (lexer.InCode)            *)
(*                                                                         *)
(* DevP2 switches reproduce the pinned loops: BlockIgnoresEOF (F-17: the   *)
(* block loop only stops at @end) and ObjectNoProgress (F-18: the object   *)
(* literal loop does not advance on an unexpected token).                  *)
(* Checked: Termination (every input), ProgramOrErrors, PrefixRejected.    *)
(***************************************************************************)
EXTENDS Integers, Sequences, TLC, FiniteSets

CONSTANTS Inputs,      \* set of [toks, incode, open, src] records
          DevP2
DevP2Intended == [SlotsBlind |-> FALSE, BlockIgnoresEOF |-> FALSE, ObjectNoProgress |-> FALSE, IllegalSteppedOver |-> FALSE, OneTokenAhead |-> FALSE]
DevP2AsCoded  == [SlotsBlind |-> FALSE, BlockIgnoresEOF |-> TRUE, ObjectNoProgress |-> TRUE, IllegalSteppedOver |-> FALSE, OneTokenAhead |-> FALSE]   \* the two pinned loops
\* OneTokenAhead: after the ")" of @component the pinned parser looked one token ahead: white space that a comment
\* splits into two tokens (WS WS) hid the slots, and a single white-space token was swallowed when no slot followed
\* (repaired: the parser looks past every white-space token and consumes them only when a slot follows)
DevP2OneAhead == [SlotsBlind |-> FALSE, BlockIgnoresEOF |-> FALSE, ObjectNoProgress |-> FALSE, IllegalSteppedOver |-> FALSE, OneTokenAhead |-> TRUE]
\* IllegalSteppedOver: the name positions of @each / @insert / @slot / @reserve / @use take the token as it is; as
\* pinned, an illegal token there was never looked at (repaired: the parser remembers the first illegal token the
\* lexer hands it and reports it when nothing else has been reported)
\* SlotsBlind: after a slot body the pinned parser skipped two tokens without looking at them ("skip block statement, skip
\* @end") and never looked for the @end of the component: inputs like @component("c")@slot@else@if(true) were accepted
\* (repaired: both @end tokens are required)
DevP2Blind    == [SlotsBlind |-> TRUE, BlockIgnoresEOF |-> FALSE, ObjectNoProgress |-> FALSE, IllegalSteppedOver |-> FALSE, OneTokenAhead |-> FALSE]
DevP2Illegal  == [SlotsBlind |-> FALSE, BlockIgnoresEOF |-> FALSE, ObjectNoProgress |-> FALSE, IllegalSteppedOver |-> TRUE, OneTokenAhead |-> FALSE]

(* --fair algorithm TwParser
variables inp \in Inputs, toks = inp.toks, i = 1, errs = <<>>, nilp = FALSE,
          loose = 0,      \* @slot tokens met as statements of their own (outside a component use that owns them)
          eaten = 0,      \* white-space tokens consumed without a slot following them
          depth = 0;      \* component uses whose slot bodies are being parsed

define
  Tok(k) == IF k >= 1 /\ k <= Len(toks) THEN toks[k] ELSE "EOF"
  Closers == {"END", "ELSE", "ELSE_IF"}
  Atoms == {"INT", "IDENT", "STR", "FLOAT", "TRUE", "FALSE", "NIL"}
  BinOps == {"ADD", "SUB", "MUL", "DIV", "MOD", "EQ", "NOT_EQ", "LTHAN", "GTHAN", "LTHAN_EQ", "GTHAN_EQ"}
  \* the table 'precedences' of parser.go (LOWEST = 1 for every other token)
  Prec(t) == CASE t = "QUESTION" -> 2 [] t \in {"EQ", "NOT_EQ"} -> 3 [] t \in {"LTHAN", "GTHAN", "LTHAN_EQ", "GTHAN_EQ"} -> 4
               [] t \in {"ADD", "SUB"} -> 5 [] t \in {"MUL", "DIV", "MOD"} -> 6 [] t = "DOT" -> 7 [] t = "LPAREN" -> 9
               [] t = "LBRACKET" -> 10 [] t \in {"INC", "DEC"} -> 11 [] OTHER -> 1
  RECURSIVE WsRun(_)
  WsRun(k) == IF Tok(k) = "WS" THEN 1 + WsRun(k + 1) ELSE 0      \* white-space-only text tokens starting at k
end define;

macro err(e) begin errs := Append(errs, e); end macro;

\* parseExpression(prec): the Pratt loop of parser.go with its precedence table. An infix function that fails returns nil
\* to the loop, which goes on with the next token (so does the model: no 'return' after an error in the loop).
procedure parseExpr(prec)
begin
 E0: if Tok(i) \in Atoms then
       skip;
     elsif Tok(i) \in {"SUB", "NOT"} then                 \* parsePrefixExp
       i := i + 1;
       call parseExpr(8);
     elsif Tok(i) = "LPAREN" then                         \* parseGroupedExpression
       i := i + 1;
       call parseExpr(1);
 E1:   if Tok(i + 1) = "RPAREN" then i := i + 1; else err("expected )"); end if;
     elsif Tok(i) = "LBRACKET" then
       call parseList("RBRACKET");
     elsif Tok(i) = "LBRACE" then
       call parseObject();
     else
       err("no prefix parse function");
       return;
     end if;
 E2: while Tok(i + 1) \notin {"RBRACES", "SEMI", "RPAREN"} /\ prec < Prec(Tok(i + 1)) do
       if Tok(i + 1) \in BinOps then                      \* parseInfixExp
         i := i + 2;
         if Tok(i) = "RBRACES" then err("expected expression"); else call parseExpr(Prec(Tok(i - 1))); end if;
       elsif Tok(i + 1) = "QUESTION" then                 \* parseTernaryExp
         i := i + 2;
         call parseExpr(2);
 E3:     if Tok(i + 1) # "COLON" then
           err("expected :");
         else
           i := i + 2;
           call parseExpr(1);
         end if;
       elsif Tok(i + 1) = "LBRACKET" then                 \* parseIndexExp
         i := i + 2;
         call parseExpr(1);
 E4:     if Tok(i + 1) = "RBRACKET" then i := i + 1; else err("expected ]"); end if;
       elsif Tok(i + 1) = "DOT" then                      \* parseDotExp, parseCallExp
         if Tok(i + 2) # "IDENT" then
           i := i + 1;
           err("expected identifier");
         elsif Tok(i + 3) = "LPAREN" then
           i := i + 3;
           call parseList("RPAREN");
         else
           i := i + 2;
         end if;
       elsif Tok(i + 1) \in {"INC", "DEC"} then           \* parsePostfixExp
         i := i + 1;
       else
         goto E5;                                         \* "(" has a precedence but no infix function: the loop returns
       end if;
     end while;
 E5: return;
end procedure;

\* parseExpressionList(end)
procedure parseList(closer)
begin
 L0: if Tok(i + 1) = closer then i := i + 1; return; end if;
 L1: i := i + 1;
     call parseExpr(1);
 L2: while Tok(i + 1) = "COMMA" do
       i := i + 1;
       if Tok(i + 1) = closer then goto L4; end if;
 L3:   i := i + 1;
       call parseExpr(1);
     end while;
 L4: if Tok(i + 1) = closer then i := i + 1; else err("expected closer"); end if;
 L5: return;
end procedure;

\* parseObjectLiteral
procedure parseObject()
begin
 O0: i := i + 1;
     if Tok(i) = "RBRACE" then return; end if;
 O1: while Tok(i) # "RBRACE" do
       if Tok(i + 1) = "COLON" then i := i + 2; end if;
 O2:   call parseExpr(1);
 O3:   if Tok(i + 1) = "COMMA" then
         i := i + 2;
       elsif DevP2.ObjectNoProgress then
         if Tok(i + 1) = "RBRACE" then i := i + 1; return; end if;     \* as coded: otherwise loop again without advancing
       else
         if Tok(i + 1) = "RBRACE" then i := i + 1; else err("expected }"); end if;
         return;
       end if;
     end while;
 O4: return;
end procedure;

\* parseBlockStmt
procedure parseBlock()
begin
 B0: if Tok(i) \in Closers then i := i - 1; return; end if;          \* empty block: backUp
 B1: while Tok(i) # "END" /\ (Tok(i) # "EOF" \/ DevP2.BlockIgnoresEOF) do
       call parseStatement();
 B2:   if Tok(i) = "ILLEGAL" then err("illegal token"); return; end if;
 B3:   if Tok(i + 1) \in Closers then goto B5; end if;
 B4:   i := i + 1;
     end while;
 B5: if Tok(i) = "EOF" then err("expected @end, got EOF"); end if;
 B6: return;
end procedure;

\* parseIfStmt (with parseElseIfStmt and parseAlternativeBlock inlined as loops)
procedure parseIf()
begin
 I0: if Tok(i + 1) # "LPAREN" then err("expected ("); return; end if;
 I1: i := i + 2;
     call parseExpr(1);
 I2: if Tok(i + 1) # "RPAREN" then err("expected )"); return; end if;
 I3: i := i + 2;
     call parseBlock();
 I4: while Tok(i + 1) = "ELSE_IF" do
       i := i + 3;                        \* move to @elseif, skip it, skip "("
       call parseExpr(1);
 I5:   if Tok(i + 1) # "RPAREN" then err("expected )"); return; end if;
 I6:   i := i + 2;
       call parseBlock();
     end while;
 I7: if Tok(i + 1) = "ELSE" then
       i := i + 2;
       call parseBlock();
 I8:   if Tok(i + 1) = "ELSE_IF" then err("@elseif cannot follow @else"); return; end if;
     end if;
 I9: if Tok(i + 1) = "END" then i := i + 1; else err("expected @end"); end if;
 IA: return;
end procedure;

\* parseEachStmt: @each(IDENT in expr) block [@else block] @end
procedure parseEach()
begin
 C0: if Tok(i + 1) # "LPAREN" then err("expected ("); return; end if;
 C1: i := i + 2;
     if Tok(i + 1) # "IN" then err("expected in"); return; end if;
 C2: i := i + 2;
     call parseExpr(1);
 C3: if Tok(i + 1) # "RPAREN" then err("expected )"); return; end if;
 C4: i := i + 2;
     call parseBlock();
 C5: if Tok(i + 1) = "ELSE" then
       i := i + 2;
       call parseBlock();
     end if;
 C6: if Tok(i + 1) = "END" then i := i + 1; else err("expected @end"); end if;
 C7: return;
end procedure;

\* parseInsertStmt: @insert(STR) block | @insert(STR, expr)
procedure parseInsert()
begin
 N0: if Tok(i + 1) # "LPAREN" then err("expected ("); return; end if;
 N1: i := i + 2;
 N1a: if Tok(i + 1) = "COMMA" then
       i := i + 2;
       call parseExpr(1);
       return;
     end if;
 N2: if Tok(i + 1) # "RPAREN" then err("expected )"); return; end if;
 N3: i := i + 2;
     call parseBlock();
 N4: return;
end procedure;

\* parseComponentStmt with parseSlots
procedure parseComponent()
begin
 M0: if Tok(i + 1) # "LPAREN" then err("expected ("); return; end if;
 M1: i := i + 2;
 M1a: if Tok(i + 1) = "COMMA" then
       i := i + 2;
       call parseExpr(1);
     end if;
 M2: if Tok(i + 1) # "RPAREN" then err("expected )"); return; end if;
 M3: i := i + 1;
 M3a: if DevP2.OneTokenAhead then
       if Tok(i + 1) = "SLOT" then
         i := i + 1;
       elsif Tok(i + 1) = "WS" then
         if Tok(i + 2) = "SLOT" then i := i + 2; else i := i + 1; eaten := eaten + 1; return; end if;
       else
         return;
       end if;
     elsif Tok(i + 1 + WsRun(i + 1)) = "SLOT" then
       i := i + 1 + WsRun(i + 1);
     else
       return;
     end if;
 M3b: depth := depth + 1;
 M4: while Tok(i) = "SLOT" do
       if Tok(i + 1) = "LPAREN" then
         i := i + 2;
         if Tok(i + 1) # "RPAREN" then err("expected )"); return; end if;
 M5:     i := i + 2;
       end if;
 M6:   call parseBlock();
 M7:   if DevP2.SlotsBlind then
         i := i + 2;                      \* as pinned: skip block statement, skip "@end" without looking
       elsif Tok(i + 1) = "END" then
         i := i + 2;
       else
         err("expected @end of the slot"); return;
       end if;
 M8:   while Tok(i) \in {"HTML", "WS"} do i := i + 1; end while;
     end while;
 M9: depth := depth - 1;
     if ~DevP2.SlotsBlind /\ errs = <<>> /\ Tok(i) # "END" then err("expected @end of the component"); end if;
 M10: return;
end procedure;

\* parseEmbeddedCode ("{{", ";" or the "(" of @for already current): assignment or expression statement
procedure parseEmbedded()
begin
 X0: i := i + 1;
 X0a: if Tok(i) = "RBRACES" then err("empty braces"); return; end if;
 X0b: if Tok(i) = "IDENT" /\ Tok(i + 1) = "ASSIGN" then
       i := i + 2;
 X0c:  if Tok(i) = "RBRACES" then err("expected expression"); return; end if;
 X0d:  call parseExpr(1);
       return;
     end if;
 X1: call parseExpr(1);
 X2: if Tok(i + 1) = "RBRACES" then i := i + 1; end if;
 X3: return;
end procedure;

\* parseForStmt: @for( [init] ; [cond] ; [post] ) block [@else block] @end
procedure parseFor()
begin
 F0: if Tok(i + 1) # "LPAREN" then err("expected ("); return; end if;
 F1: i := i + 1;
 F1a: if Tok(i + 1) # "SEMI" then call parseEmbedded(); end if;
 F2: if Tok(i + 1) # "SEMI" then err("expected ;"); return; end if;
 F3: i := i + 1;
 F3a: if Tok(i + 1) # "SEMI" then
        i := i + 1;
        call parseExpr(1);
      end if;
 F4: if Tok(i + 1) # "SEMI" then err("expected ;"); return; end if;
 F5: i := i + 1;
 F5a: if Tok(i + 1) # "RPAREN" then call parseEmbedded(); end if;
 F6: if Tok(i + 1) # "RPAREN" then err("expected )"); return; end if;
 F7: i := i + 2;
     call parseBlock();
 F8: if Tok(i + 1) = "ELSE" then
       i := i + 2;
       call parseBlock();
     end if;
 F9: if Tok(i + 1) = "END" then i := i + 1; else err("expected @end"); end if;
 FA: return;
end procedure;

\* parseBreakIfStmt / parseContinueIfStmt, parseUseStmt / parseReserveStmt, parseDumpStmt
procedure parseArgDirective(kind)
begin
 D0: if Tok(i + 1) # "LPAREN" then err("expected ("); return; end if;
 D1: if kind = "dump" then
       i := i + 1;
       call parseList("RPAREN");
       return;
     elsif kind = "cond" then
       i := i + 2;
       call parseExpr(1);
       return;
     else
       i := i + 2;                       \* the name token is taken as it is
     end if;
 D2: return;
end procedure;

procedure parseStatement()
begin
 S0: if Tok(i) \in {"LBRACES", "SEMI"} then call parseEmbedded();
     elsif Tok(i) = "FOR" then call parseFor();
     elsif Tok(i) \in {"BREAK_IF", "CONTINUE_IF"} then call parseArgDirective("cond");
     elsif Tok(i) \in {"USE", "RESERVE"} then call parseArgDirective("name");
     elsif Tok(i) = "DUMP" then call parseArgDirective("dump");
     elsif Tok(i) = "IF" then call parseIf();
     elsif Tok(i) = "EACH" then call parseEach();
     elsif Tok(i) = "INSERT" then call parseInsert();
     elsif Tok(i) = "COMPONENT" then call parseComponent();
     elsif Tok(i) = "SLOT" /\ depth = 0 then loose := loose + 1;   \* (inside a use, the body of a default slot starts at its @slot token)
     end if;
 S1: return;
end procedure;

\* ParseProgram
begin
 P0: while Tok(i) # "EOF" do
       call parseStatement();
 P1:   if Tok(i) = "ILLEGAL" then err("illegal token"); nilp := TRUE; goto P3; end if;
 P2:   i := i + 1;
     end while;
     if inp.incode then err("unexpected end of file"); end if;
 P2a: if errs = <<>> /\ ~DevP2.IllegalSteppedOver /\ (\E k \in 1..Len(toks) : toks[k] = "ILLEGAL") then
       err("illegal token");
     end if;
 P3: skip;
end algorithm; *)
\* BEGIN TRANSLATION
CONSTANT defaultInitValue
VARIABLES pc, inp, toks, i, errs, nilp, loose, eaten, depth, stack

(* define statement *)
Tok(k) == IF k >= 1 /\ k <= Len(toks) THEN toks[k] ELSE "EOF"
Closers == {"END", "ELSE", "ELSE_IF"}
Atoms == {"INT", "IDENT", "STR", "FLOAT", "TRUE", "FALSE", "NIL"}
BinOps == {"ADD", "SUB", "MUL", "DIV", "MOD", "EQ", "NOT_EQ", "LTHAN", "GTHAN", "LTHAN_EQ", "GTHAN_EQ"}

Prec(t) == CASE t = "QUESTION" -> 2 [] t \in {"EQ", "NOT_EQ"} -> 3 [] t \in {"LTHAN", "GTHAN", "LTHAN_EQ", "GTHAN_EQ"} -> 4
             [] t \in {"ADD", "SUB"} -> 5 [] t \in {"MUL", "DIV", "MOD"} -> 6 [] t = "DOT" -> 7 [] t = "LPAREN" -> 9
             [] t = "LBRACKET" -> 10 [] t \in {"INC", "DEC"} -> 11 [] OTHER -> 1
RECURSIVE WsRun(_)
WsRun(k) == IF Tok(k) = "WS" THEN 1 + WsRun(k + 1) ELSE 0

VARIABLES prec, closer, kind

vars == << pc, inp, toks, i, errs, nilp, loose, eaten, depth, stack, prec, 
           closer, kind >>

Init == (* Global variables *)
        /\ inp \in Inputs
        /\ toks = inp.toks
        /\ i = 1
        /\ errs = <<>>
        /\ nilp = FALSE
        /\ loose = 0
        /\ eaten = 0
        /\ depth = 0
        (* Procedure parseExpr *)
        /\ prec = defaultInitValue
        (* Procedure parseList *)
        /\ closer = defaultInitValue
        (* Procedure parseArgDirective *)
        /\ kind = defaultInitValue
        /\ stack = << >>
        /\ pc = "P0"

E0 == /\ pc = "E0"
      /\ IF Tok(i) \in Atoms
            THEN /\ TRUE
                 /\ pc' = "E2"
                 /\ UNCHANGED << i, errs, stack, prec, closer >>
            ELSE /\ IF Tok(i) \in {"SUB", "NOT"}
                       THEN /\ i' = i + 1
                            /\ /\ prec' = 8
                               /\ stack' = << [ procedure |->  "parseExpr",
                                                pc        |->  "E2",
                                                prec      |->  prec ] >>
                                            \o stack
                            /\ pc' = "E0"
                            /\ UNCHANGED << errs, closer >>
                       ELSE /\ IF Tok(i) = "LPAREN"
                                  THEN /\ i' = i + 1
                                       /\ /\ prec' = 1
                                          /\ stack' = << [ procedure |->  "parseExpr",
                                                           pc        |->  "E1",
                                                           prec      |->  prec ] >>
                                                       \o stack
                                       /\ pc' = "E0"
                                       /\ UNCHANGED << errs, closer >>
                                  ELSE /\ IF Tok(i) = "LBRACKET"
                                             THEN /\ /\ closer' = "RBRACKET"
                                                     /\ stack' = << [ procedure |->  "parseList",
                                                                      pc        |->  "E2",
                                                                      closer    |->  closer ] >>
                                                                  \o stack
                                                  /\ pc' = "L0"
                                                  /\ UNCHANGED << errs, prec >>
                                             ELSE /\ IF Tok(i) = "LBRACE"
                                                        THEN /\ stack' = << [ procedure |->  "parseObject",
                                                                              pc        |->  "E2" ] >>
                                                                          \o stack
                                                             /\ pc' = "O0"
                                                             /\ UNCHANGED << errs, 
                                                                             prec >>
                                                        ELSE /\ errs' = Append(errs, "no prefix parse function")
                                                             /\ pc' = Head(stack).pc
                                                             /\ prec' = Head(stack).prec
                                                             /\ stack' = Tail(stack)
                                                  /\ UNCHANGED closer
                                       /\ i' = i
      /\ UNCHANGED << inp, toks, nilp, loose, eaten, depth, kind >>

E1 == /\ pc = "E1"
      /\ IF Tok(i + 1) = "RPAREN"
            THEN /\ i' = i + 1
                 /\ errs' = errs
            ELSE /\ errs' = Append(errs, "expected )")
                 /\ i' = i
      /\ pc' = "E2"
      /\ UNCHANGED << inp, toks, nilp, loose, eaten, depth, stack, prec, 
                      closer, kind >>

E2 == /\ pc = "E2"
      /\ IF Tok(i + 1) \notin {"RBRACES", "SEMI", "RPAREN"} /\ prec < Prec(Tok(i + 1))
            THEN /\ IF Tok(i + 1) \in BinOps
                       THEN /\ i' = i + 2
                            /\ IF Tok(i') = "RBRACES"
                                  THEN /\ errs' = Append(errs, "expected expression")
                                       /\ pc' = "E2"
                                       /\ UNCHANGED << stack, prec >>
                                  ELSE /\ /\ prec' = Prec(Tok(i' - 1))
                                          /\ stack' = << [ procedure |->  "parseExpr",
                                                           pc        |->  "E2",
                                                           prec      |->  prec ] >>
                                                       \o stack
                                       /\ pc' = "E0"
                                       /\ errs' = errs
                            /\ UNCHANGED closer
                       ELSE /\ IF Tok(i + 1) = "QUESTION"
                                  THEN /\ i' = i + 2
                                       /\ /\ prec' = 2
                                          /\ stack' = << [ procedure |->  "parseExpr",
                                                           pc        |->  "E3",
                                                           prec      |->  prec ] >>
                                                       \o stack
                                       /\ pc' = "E0"
                                       /\ UNCHANGED << errs, closer >>
                                  ELSE /\ IF Tok(i + 1) = "LBRACKET"
                                             THEN /\ i' = i + 2
                                                  /\ /\ prec' = 1
                                                     /\ stack' = << [ procedure |->  "parseExpr",
                                                                      pc        |->  "E4",
                                                                      prec      |->  prec ] >>
                                                                  \o stack
                                                  /\ pc' = "E0"
                                                  /\ UNCHANGED << errs, closer >>
                                             ELSE /\ IF Tok(i + 1) = "DOT"
                                                        THEN /\ IF Tok(i + 2) # "IDENT"
                                                                   THEN /\ i' = i + 1
                                                                        /\ errs' = Append(errs, "expected identifier")
                                                                        /\ pc' = "E2"
                                                                        /\ UNCHANGED << stack, 
                                                                                        closer >>
                                                                   ELSE /\ IF Tok(i + 3) = "LPAREN"
                                                                              THEN /\ i' = i + 3
                                                                                   /\ /\ closer' = "RPAREN"
                                                                                      /\ stack' = << [ procedure |->  "parseList",
                                                                                                       pc        |->  "E2",
                                                                                                       closer    |->  closer ] >>
                                                                                                   \o stack
                                                                                   /\ pc' = "L0"
                                                                              ELSE /\ i' = i + 2
                                                                                   /\ pc' = "E2"
                                                                                   /\ UNCHANGED << stack, 
                                                                                                   closer >>
                                                                        /\ errs' = errs
                                                        ELSE /\ IF Tok(i + 1) \in {"INC", "DEC"}
                                                                   THEN /\ i' = i + 1
                                                                        /\ pc' = "E2"
                                                                   ELSE /\ pc' = "E5"
                                                                        /\ i' = i
                                                             /\ UNCHANGED << errs, 
                                                                             stack, 
                                                                             closer >>
                                                  /\ prec' = prec
            ELSE /\ pc' = "E5"
                 /\ UNCHANGED << i, errs, stack, prec, closer >>
      /\ UNCHANGED << inp, toks, nilp, loose, eaten, depth, kind >>

E3 == /\ pc = "E3"
      /\ IF Tok(i + 1) # "COLON"
            THEN /\ errs' = Append(errs, "expected :")
                 /\ pc' = "E2"
                 /\ UNCHANGED << i, stack, prec >>
            ELSE /\ i' = i + 2
                 /\ /\ prec' = 1
                    /\ stack' = << [ procedure |->  "parseExpr",
                                     pc        |->  "E2",
                                     prec      |->  prec ] >>
                                 \o stack
                 /\ pc' = "E0"
                 /\ errs' = errs
      /\ UNCHANGED << inp, toks, nilp, loose, eaten, depth, closer, kind >>

E4 == /\ pc = "E4"
      /\ IF Tok(i + 1) = "RBRACKET"
            THEN /\ i' = i + 1
                 /\ errs' = errs
            ELSE /\ errs' = Append(errs, "expected ]")
                 /\ i' = i
      /\ pc' = "E2"
      /\ UNCHANGED << inp, toks, nilp, loose, eaten, depth, stack, prec, 
                      closer, kind >>

E5 == /\ pc = "E5"
      /\ pc' = Head(stack).pc
      /\ prec' = Head(stack).prec
      /\ stack' = Tail(stack)
      /\ UNCHANGED << inp, toks, i, errs, nilp, loose, eaten, depth, closer, 
                      kind >>

parseExpr == E0 \/ E1 \/ E2 \/ E3 \/ E4 \/ E5

L0 == /\ pc = "L0"
      /\ IF Tok(i + 1) = closer
            THEN /\ i' = i + 1
                 /\ pc' = Head(stack).pc
                 /\ closer' = Head(stack).closer
                 /\ stack' = Tail(stack)
            ELSE /\ pc' = "L1"
                 /\ UNCHANGED << i, stack, closer >>
      /\ UNCHANGED << inp, toks, errs, nilp, loose, eaten, depth, prec, kind >>

L1 == /\ pc = "L1"
      /\ i' = i + 1
      /\ /\ prec' = 1
         /\ stack' = << [ procedure |->  "parseExpr",
                          pc        |->  "L2",
                          prec      |->  prec ] >>
                      \o stack
      /\ pc' = "E0"
      /\ UNCHANGED << inp, toks, errs, nilp, loose, eaten, depth, closer, kind >>

L2 == /\ pc = "L2"
      /\ IF Tok(i + 1) = "COMMA"
            THEN /\ i' = i + 1
                 /\ IF Tok(i' + 1) = closer
                       THEN /\ pc' = "L4"
                       ELSE /\ pc' = "L3"
            ELSE /\ pc' = "L4"
                 /\ i' = i
      /\ UNCHANGED << inp, toks, errs, nilp, loose, eaten, depth, stack, prec, 
                      closer, kind >>

L3 == /\ pc = "L3"
      /\ i' = i + 1
      /\ /\ prec' = 1
         /\ stack' = << [ procedure |->  "parseExpr",
                          pc        |->  "L2",
                          prec      |->  prec ] >>
                      \o stack
      /\ pc' = "E0"
      /\ UNCHANGED << inp, toks, errs, nilp, loose, eaten, depth, closer, kind >>

L4 == /\ pc = "L4"
      /\ IF Tok(i + 1) = closer
            THEN /\ i' = i + 1
                 /\ errs' = errs
            ELSE /\ errs' = Append(errs, "expected closer")
                 /\ i' = i
      /\ pc' = "L5"
      /\ UNCHANGED << inp, toks, nilp, loose, eaten, depth, stack, prec, 
                      closer, kind >>

L5 == /\ pc = "L5"
      /\ pc' = Head(stack).pc
      /\ closer' = Head(stack).closer
      /\ stack' = Tail(stack)
      /\ UNCHANGED << inp, toks, i, errs, nilp, loose, eaten, depth, prec, 
                      kind >>

parseList == L0 \/ L1 \/ L2 \/ L3 \/ L4 \/ L5

O0 == /\ pc = "O0"
      /\ i' = i + 1
      /\ IF Tok(i') = "RBRACE"
            THEN /\ pc' = Head(stack).pc
                 /\ stack' = Tail(stack)
            ELSE /\ pc' = "O1"
                 /\ stack' = stack
      /\ UNCHANGED << inp, toks, errs, nilp, loose, eaten, depth, prec, closer, 
                      kind >>

O1 == /\ pc = "O1"
      /\ IF Tok(i) # "RBRACE"
            THEN /\ IF Tok(i + 1) = "COLON"
                       THEN /\ i' = i + 2
                       ELSE /\ TRUE
                            /\ i' = i
                 /\ pc' = "O2"
            ELSE /\ pc' = "O4"
                 /\ i' = i
      /\ UNCHANGED << inp, toks, errs, nilp, loose, eaten, depth, stack, prec, 
                      closer, kind >>

O2 == /\ pc = "O2"
      /\ /\ prec' = 1
         /\ stack' = << [ procedure |->  "parseExpr",
                          pc        |->  "O3",
                          prec      |->  prec ] >>
                      \o stack
      /\ pc' = "E0"
      /\ UNCHANGED << inp, toks, i, errs, nilp, loose, eaten, depth, closer, 
                      kind >>

O3 == /\ pc = "O3"
      /\ IF Tok(i + 1) = "COMMA"
            THEN /\ i' = i + 2
                 /\ pc' = "O1"
                 /\ UNCHANGED << errs, stack >>
            ELSE /\ IF DevP2.ObjectNoProgress
                       THEN /\ IF Tok(i + 1) = "RBRACE"
                                  THEN /\ i' = i + 1
                                       /\ pc' = Head(stack).pc
                                       /\ stack' = Tail(stack)
                                  ELSE /\ pc' = "O1"
                                       /\ UNCHANGED << i, stack >>
                            /\ errs' = errs
                       ELSE /\ IF Tok(i + 1) = "RBRACE"
                                  THEN /\ i' = i + 1
                                       /\ errs' = errs
                                  ELSE /\ errs' = Append(errs, "expected }")
                                       /\ i' = i
                            /\ pc' = Head(stack).pc
                            /\ stack' = Tail(stack)
      /\ UNCHANGED << inp, toks, nilp, loose, eaten, depth, prec, closer, kind >>

O4 == /\ pc = "O4"
      /\ pc' = Head(stack).pc
      /\ stack' = Tail(stack)
      /\ UNCHANGED << inp, toks, i, errs, nilp, loose, eaten, depth, prec, 
                      closer, kind >>

parseObject == O0 \/ O1 \/ O2 \/ O3 \/ O4

B0 == /\ pc = "B0"
      /\ IF Tok(i) \in Closers
            THEN /\ i' = i - 1
                 /\ pc' = Head(stack).pc
                 /\ stack' = Tail(stack)
            ELSE /\ pc' = "B1"
                 /\ UNCHANGED << i, stack >>
      /\ UNCHANGED << inp, toks, errs, nilp, loose, eaten, depth, prec, closer, 
                      kind >>

B1 == /\ pc = "B1"
      /\ IF Tok(i) # "END" /\ (Tok(i) # "EOF" \/ DevP2.BlockIgnoresEOF)
            THEN /\ stack' = << [ procedure |->  "parseStatement",
                                  pc        |->  "B2" ] >>
                              \o stack
                 /\ pc' = "S0"
            ELSE /\ pc' = "B5"
                 /\ stack' = stack
      /\ UNCHANGED << inp, toks, i, errs, nilp, loose, eaten, depth, prec, 
                      closer, kind >>

B2 == /\ pc = "B2"
      /\ IF Tok(i) = "ILLEGAL"
            THEN /\ errs' = Append(errs, "illegal token")
                 /\ pc' = Head(stack).pc
                 /\ stack' = Tail(stack)
            ELSE /\ pc' = "B3"
                 /\ UNCHANGED << errs, stack >>
      /\ UNCHANGED << inp, toks, i, nilp, loose, eaten, depth, prec, closer, 
                      kind >>

B3 == /\ pc = "B3"
      /\ IF Tok(i + 1) \in Closers
            THEN /\ pc' = "B5"
            ELSE /\ pc' = "B4"
      /\ UNCHANGED << inp, toks, i, errs, nilp, loose, eaten, depth, stack, 
                      prec, closer, kind >>

B4 == /\ pc = "B4"
      /\ i' = i + 1
      /\ pc' = "B1"
      /\ UNCHANGED << inp, toks, errs, nilp, loose, eaten, depth, stack, prec, 
                      closer, kind >>

B5 == /\ pc = "B5"
      /\ IF Tok(i) = "EOF"
            THEN /\ errs' = Append(errs, "expected @end, got EOF")
            ELSE /\ TRUE
                 /\ errs' = errs
      /\ pc' = "B6"
      /\ UNCHANGED << inp, toks, i, nilp, loose, eaten, depth, stack, prec, 
                      closer, kind >>

B6 == /\ pc = "B6"
      /\ pc' = Head(stack).pc
      /\ stack' = Tail(stack)
      /\ UNCHANGED << inp, toks, i, errs, nilp, loose, eaten, depth, prec, 
                      closer, kind >>

parseBlock == B0 \/ B1 \/ B2 \/ B3 \/ B4 \/ B5 \/ B6

I0 == /\ pc = "I0"
      /\ IF Tok(i + 1) # "LPAREN"
            THEN /\ errs' = Append(errs, "expected (")
                 /\ pc' = Head(stack).pc
                 /\ stack' = Tail(stack)
            ELSE /\ pc' = "I1"
                 /\ UNCHANGED << errs, stack >>
      /\ UNCHANGED << inp, toks, i, nilp, loose, eaten, depth, prec, closer, 
                      kind >>

I1 == /\ pc = "I1"
      /\ i' = i + 2
      /\ /\ prec' = 1
         /\ stack' = << [ procedure |->  "parseExpr",
                          pc        |->  "I2",
                          prec      |->  prec ] >>
                      \o stack
      /\ pc' = "E0"
      /\ UNCHANGED << inp, toks, errs, nilp, loose, eaten, depth, closer, kind >>

I2 == /\ pc = "I2"
      /\ IF Tok(i + 1) # "RPAREN"
            THEN /\ errs' = Append(errs, "expected )")
                 /\ pc' = Head(stack).pc
                 /\ stack' = Tail(stack)
            ELSE /\ pc' = "I3"
                 /\ UNCHANGED << errs, stack >>
      /\ UNCHANGED << inp, toks, i, nilp, loose, eaten, depth, prec, closer, 
                      kind >>

I3 == /\ pc = "I3"
      /\ i' = i + 2
      /\ stack' = << [ procedure |->  "parseBlock",
                       pc        |->  "I4" ] >>
                   \o stack
      /\ pc' = "B0"
      /\ UNCHANGED << inp, toks, errs, nilp, loose, eaten, depth, prec, closer, 
                      kind >>

I4 == /\ pc = "I4"
      /\ IF Tok(i + 1) = "ELSE_IF"
            THEN /\ i' = i + 3
                 /\ /\ prec' = 1
                    /\ stack' = << [ procedure |->  "parseExpr",
                                     pc        |->  "I5",
                                     prec      |->  prec ] >>
                                 \o stack
                 /\ pc' = "E0"
            ELSE /\ pc' = "I7"
                 /\ UNCHANGED << i, stack, prec >>
      /\ UNCHANGED << inp, toks, errs, nilp, loose, eaten, depth, closer, kind >>

I5 == /\ pc = "I5"
      /\ IF Tok(i + 1) # "RPAREN"
            THEN /\ errs' = Append(errs, "expected )")
                 /\ pc' = Head(stack).pc
                 /\ stack' = Tail(stack)
            ELSE /\ pc' = "I6"
                 /\ UNCHANGED << errs, stack >>
      /\ UNCHANGED << inp, toks, i, nilp, loose, eaten, depth, prec, closer, 
                      kind >>

I6 == /\ pc = "I6"
      /\ i' = i + 2
      /\ stack' = << [ procedure |->  "parseBlock",
                       pc        |->  "I4" ] >>
                   \o stack
      /\ pc' = "B0"
      /\ UNCHANGED << inp, toks, errs, nilp, loose, eaten, depth, prec, closer, 
                      kind >>

I7 == /\ pc = "I7"
      /\ IF Tok(i + 1) = "ELSE"
            THEN /\ i' = i + 2
                 /\ stack' = << [ procedure |->  "parseBlock",
                                  pc        |->  "I8" ] >>
                              \o stack
                 /\ pc' = "B0"
            ELSE /\ pc' = "I9"
                 /\ UNCHANGED << i, stack >>
      /\ UNCHANGED << inp, toks, errs, nilp, loose, eaten, depth, prec, closer, 
                      kind >>

I8 == /\ pc = "I8"
      /\ IF Tok(i + 1) = "ELSE_IF"
            THEN /\ errs' = Append(errs, "@elseif cannot follow @else")
                 /\ pc' = Head(stack).pc
                 /\ stack' = Tail(stack)
            ELSE /\ pc' = "I9"
                 /\ UNCHANGED << errs, stack >>
      /\ UNCHANGED << inp, toks, i, nilp, loose, eaten, depth, prec, closer, 
                      kind >>

I9 == /\ pc = "I9"
      /\ IF Tok(i + 1) = "END"
            THEN /\ i' = i + 1
                 /\ errs' = errs
            ELSE /\ errs' = Append(errs, "expected @end")
                 /\ i' = i
      /\ pc' = "IA"
      /\ UNCHANGED << inp, toks, nilp, loose, eaten, depth, stack, prec, 
                      closer, kind >>

IA == /\ pc = "IA"
      /\ pc' = Head(stack).pc
      /\ stack' = Tail(stack)
      /\ UNCHANGED << inp, toks, i, errs, nilp, loose, eaten, depth, prec, 
                      closer, kind >>

parseIf == I0 \/ I1 \/ I2 \/ I3 \/ I4 \/ I5 \/ I6 \/ I7 \/ I8 \/ I9 \/ IA

C0 == /\ pc = "C0"
      /\ IF Tok(i + 1) # "LPAREN"
            THEN /\ errs' = Append(errs, "expected (")
                 /\ pc' = Head(stack).pc
                 /\ stack' = Tail(stack)
            ELSE /\ pc' = "C1"
                 /\ UNCHANGED << errs, stack >>
      /\ UNCHANGED << inp, toks, i, nilp, loose, eaten, depth, prec, closer, 
                      kind >>

C1 == /\ pc = "C1"
      /\ i' = i + 2
      /\ IF Tok(i' + 1) # "IN"
            THEN /\ errs' = Append(errs, "expected in")
                 /\ pc' = Head(stack).pc
                 /\ stack' = Tail(stack)
            ELSE /\ pc' = "C2"
                 /\ UNCHANGED << errs, stack >>
      /\ UNCHANGED << inp, toks, nilp, loose, eaten, depth, prec, closer, kind >>

C2 == /\ pc = "C2"
      /\ i' = i + 2
      /\ /\ prec' = 1
         /\ stack' = << [ procedure |->  "parseExpr",
                          pc        |->  "C3",
                          prec      |->  prec ] >>
                      \o stack
      /\ pc' = "E0"
      /\ UNCHANGED << inp, toks, errs, nilp, loose, eaten, depth, closer, kind >>

C3 == /\ pc = "C3"
      /\ IF Tok(i + 1) # "RPAREN"
            THEN /\ errs' = Append(errs, "expected )")
                 /\ pc' = Head(stack).pc
                 /\ stack' = Tail(stack)
            ELSE /\ pc' = "C4"
                 /\ UNCHANGED << errs, stack >>
      /\ UNCHANGED << inp, toks, i, nilp, loose, eaten, depth, prec, closer, 
                      kind >>

C4 == /\ pc = "C4"
      /\ i' = i + 2
      /\ stack' = << [ procedure |->  "parseBlock",
                       pc        |->  "C5" ] >>
                   \o stack
      /\ pc' = "B0"
      /\ UNCHANGED << inp, toks, errs, nilp, loose, eaten, depth, prec, closer, 
                      kind >>

C5 == /\ pc = "C5"
      /\ IF Tok(i + 1) = "ELSE"
            THEN /\ i' = i + 2
                 /\ stack' = << [ procedure |->  "parseBlock",
                                  pc        |->  "C6" ] >>
                              \o stack
                 /\ pc' = "B0"
            ELSE /\ pc' = "C6"
                 /\ UNCHANGED << i, stack >>
      /\ UNCHANGED << inp, toks, errs, nilp, loose, eaten, depth, prec, closer, 
                      kind >>

C6 == /\ pc = "C6"
      /\ IF Tok(i + 1) = "END"
            THEN /\ i' = i + 1
                 /\ errs' = errs
            ELSE /\ errs' = Append(errs, "expected @end")
                 /\ i' = i
      /\ pc' = "C7"
      /\ UNCHANGED << inp, toks, nilp, loose, eaten, depth, stack, prec, 
                      closer, kind >>

C7 == /\ pc = "C7"
      /\ pc' = Head(stack).pc
      /\ stack' = Tail(stack)
      /\ UNCHANGED << inp, toks, i, errs, nilp, loose, eaten, depth, prec, 
                      closer, kind >>

parseEach == C0 \/ C1 \/ C2 \/ C3 \/ C4 \/ C5 \/ C6 \/ C7

N0 == /\ pc = "N0"
      /\ IF Tok(i + 1) # "LPAREN"
            THEN /\ errs' = Append(errs, "expected (")
                 /\ pc' = Head(stack).pc
                 /\ stack' = Tail(stack)
            ELSE /\ pc' = "N1"
                 /\ UNCHANGED << errs, stack >>
      /\ UNCHANGED << inp, toks, i, nilp, loose, eaten, depth, prec, closer, 
                      kind >>

N1 == /\ pc = "N1"
      /\ i' = i + 2
      /\ pc' = "N1a"
      /\ UNCHANGED << inp, toks, errs, nilp, loose, eaten, depth, stack, prec, 
                      closer, kind >>

N1a == /\ pc = "N1a"
       /\ IF Tok(i + 1) = "COMMA"
             THEN /\ i' = i + 2
                  /\ /\ prec' = 1
                     /\ stack' = << [ procedure |->  "parseExpr",
                                      pc        |->  Head(stack).pc,
                                      prec      |->  prec ] >>
                                  \o Tail(stack)
                  /\ pc' = "E0"
             ELSE /\ pc' = "N2"
                  /\ UNCHANGED << i, stack, prec >>
       /\ UNCHANGED << inp, toks, errs, nilp, loose, eaten, depth, closer, 
                       kind >>

N2 == /\ pc = "N2"
      /\ IF Tok(i + 1) # "RPAREN"
            THEN /\ errs' = Append(errs, "expected )")
                 /\ pc' = Head(stack).pc
                 /\ stack' = Tail(stack)
            ELSE /\ pc' = "N3"
                 /\ UNCHANGED << errs, stack >>
      /\ UNCHANGED << inp, toks, i, nilp, loose, eaten, depth, prec, closer, 
                      kind >>

N3 == /\ pc = "N3"
      /\ i' = i + 2
      /\ stack' = << [ procedure |->  "parseBlock",
                       pc        |->  "N4" ] >>
                   \o stack
      /\ pc' = "B0"
      /\ UNCHANGED << inp, toks, errs, nilp, loose, eaten, depth, prec, closer, 
                      kind >>

N4 == /\ pc = "N4"
      /\ pc' = Head(stack).pc
      /\ stack' = Tail(stack)
      /\ UNCHANGED << inp, toks, i, errs, nilp, loose, eaten, depth, prec, 
                      closer, kind >>

parseInsert == N0 \/ N1 \/ N1a \/ N2 \/ N3 \/ N4

M0 == /\ pc = "M0"
      /\ IF Tok(i + 1) # "LPAREN"
            THEN /\ errs' = Append(errs, "expected (")
                 /\ pc' = Head(stack).pc
                 /\ stack' = Tail(stack)
            ELSE /\ pc' = "M1"
                 /\ UNCHANGED << errs, stack >>
      /\ UNCHANGED << inp, toks, i, nilp, loose, eaten, depth, prec, closer, 
                      kind >>

M1 == /\ pc = "M1"
      /\ i' = i + 2
      /\ pc' = "M1a"
      /\ UNCHANGED << inp, toks, errs, nilp, loose, eaten, depth, stack, prec, 
                      closer, kind >>

M1a == /\ pc = "M1a"
       /\ IF Tok(i + 1) = "COMMA"
             THEN /\ i' = i + 2
                  /\ /\ prec' = 1
                     /\ stack' = << [ procedure |->  "parseExpr",
                                      pc        |->  "M2",
                                      prec      |->  prec ] >>
                                  \o stack
                  /\ pc' = "E0"
             ELSE /\ pc' = "M2"
                  /\ UNCHANGED << i, stack, prec >>
       /\ UNCHANGED << inp, toks, errs, nilp, loose, eaten, depth, closer, 
                       kind >>

M2 == /\ pc = "M2"
      /\ IF Tok(i + 1) # "RPAREN"
            THEN /\ errs' = Append(errs, "expected )")
                 /\ pc' = Head(stack).pc
                 /\ stack' = Tail(stack)
            ELSE /\ pc' = "M3"
                 /\ UNCHANGED << errs, stack >>
      /\ UNCHANGED << inp, toks, i, nilp, loose, eaten, depth, prec, closer, 
                      kind >>

M3 == /\ pc = "M3"
      /\ i' = i + 1
      /\ pc' = "M3a"
      /\ UNCHANGED << inp, toks, errs, nilp, loose, eaten, depth, stack, prec, 
                      closer, kind >>

M3a == /\ pc = "M3a"
       /\ IF DevP2.OneTokenAhead
             THEN /\ IF Tok(i + 1) = "SLOT"
                        THEN /\ i' = i + 1
                             /\ pc' = "M3b"
                             /\ UNCHANGED << eaten, stack >>
                        ELSE /\ IF Tok(i + 1) = "WS"
                                   THEN /\ IF Tok(i + 2) = "SLOT"
                                              THEN /\ i' = i + 2
                                                   /\ pc' = "M3b"
                                                   /\ UNCHANGED << eaten, 
                                                                   stack >>
                                              ELSE /\ i' = i + 1
                                                   /\ eaten' = eaten + 1
                                                   /\ pc' = Head(stack).pc
                                                   /\ stack' = Tail(stack)
                                   ELSE /\ pc' = Head(stack).pc
                                        /\ stack' = Tail(stack)
                                        /\ UNCHANGED << i, eaten >>
             ELSE /\ IF Tok(i + 1 + WsRun(i + 1)) = "SLOT"
                        THEN /\ i' = i + 1 + WsRun(i + 1)
                             /\ pc' = "M3b"
                             /\ stack' = stack
                        ELSE /\ pc' = Head(stack).pc
                             /\ stack' = Tail(stack)
                             /\ i' = i
                  /\ eaten' = eaten
       /\ UNCHANGED << inp, toks, errs, nilp, loose, depth, prec, closer, kind >>

M3b == /\ pc = "M3b"
       /\ depth' = depth + 1
       /\ pc' = "M4"
       /\ UNCHANGED << inp, toks, i, errs, nilp, loose, eaten, stack, prec, 
                       closer, kind >>

M4 == /\ pc = "M4"
      /\ IF Tok(i) = "SLOT"
            THEN /\ IF Tok(i + 1) = "LPAREN"
                       THEN /\ i' = i + 2
                            /\ IF Tok(i' + 1) # "RPAREN"
                                  THEN /\ errs' = Append(errs, "expected )")
                                       /\ pc' = Head(stack).pc
                                       /\ stack' = Tail(stack)
                                  ELSE /\ pc' = "M5"
                                       /\ UNCHANGED << errs, stack >>
                       ELSE /\ pc' = "M6"
                            /\ UNCHANGED << i, errs, stack >>
            ELSE /\ pc' = "M9"
                 /\ UNCHANGED << i, errs, stack >>
      /\ UNCHANGED << inp, toks, nilp, loose, eaten, depth, prec, closer, kind >>

M6 == /\ pc = "M6"
      /\ stack' = << [ procedure |->  "parseBlock",
                       pc        |->  "M7" ] >>
                   \o stack
      /\ pc' = "B0"
      /\ UNCHANGED << inp, toks, i, errs, nilp, loose, eaten, depth, prec, 
                      closer, kind >>

M7 == /\ pc = "M7"
      /\ IF DevP2.SlotsBlind
            THEN /\ i' = i + 2
                 /\ pc' = "M8"
                 /\ UNCHANGED << errs, stack >>
            ELSE /\ IF Tok(i + 1) = "END"
                       THEN /\ i' = i + 2
                            /\ pc' = "M8"
                            /\ UNCHANGED << errs, stack >>
                       ELSE /\ errs' = Append(errs, "expected @end of the slot")
                            /\ pc' = Head(stack).pc
                            /\ stack' = Tail(stack)
                            /\ i' = i
      /\ UNCHANGED << inp, toks, nilp, loose, eaten, depth, prec, closer, kind >>

M8 == /\ pc = "M8"
      /\ IF Tok(i) \in {"HTML", "WS"}
            THEN /\ i' = i + 1
                 /\ pc' = "M8"
            ELSE /\ pc' = "M4"
                 /\ i' = i
      /\ UNCHANGED << inp, toks, errs, nilp, loose, eaten, depth, stack, prec, 
                      closer, kind >>

M5 == /\ pc = "M5"
      /\ i' = i + 2
      /\ pc' = "M6"
      /\ UNCHANGED << inp, toks, errs, nilp, loose, eaten, depth, stack, prec, 
                      closer, kind >>

M9 == /\ pc = "M9"
      /\ depth' = depth - 1
      /\ IF ~DevP2.SlotsBlind /\ errs = <<>> /\ Tok(i) # "END"
            THEN /\ errs' = Append(errs, "expected @end of the component")
            ELSE /\ TRUE
                 /\ errs' = errs
      /\ pc' = "M10"
      /\ UNCHANGED << inp, toks, i, nilp, loose, eaten, stack, prec, closer, 
                      kind >>

M10 == /\ pc = "M10"
       /\ pc' = Head(stack).pc
       /\ stack' = Tail(stack)
       /\ UNCHANGED << inp, toks, i, errs, nilp, loose, eaten, depth, prec, 
                       closer, kind >>

parseComponent == M0 \/ M1 \/ M1a \/ M2 \/ M3 \/ M3a \/ M3b \/ M4 \/ M6
                     \/ M7 \/ M8 \/ M5 \/ M9 \/ M10

X0 == /\ pc = "X0"
      /\ i' = i + 1
      /\ pc' = "X0a"
      /\ UNCHANGED << inp, toks, errs, nilp, loose, eaten, depth, stack, prec, 
                      closer, kind >>

X0a == /\ pc = "X0a"
       /\ IF Tok(i) = "RBRACES"
             THEN /\ errs' = Append(errs, "empty braces")
                  /\ pc' = Head(stack).pc
                  /\ stack' = Tail(stack)
             ELSE /\ pc' = "X0b"
                  /\ UNCHANGED << errs, stack >>
       /\ UNCHANGED << inp, toks, i, nilp, loose, eaten, depth, prec, closer, 
                       kind >>

X0b == /\ pc = "X0b"
       /\ IF Tok(i) = "IDENT" /\ Tok(i + 1) = "ASSIGN"
             THEN /\ i' = i + 2
                  /\ pc' = "X0c"
             ELSE /\ pc' = "X1"
                  /\ i' = i
       /\ UNCHANGED << inp, toks, errs, nilp, loose, eaten, depth, stack, prec, 
                       closer, kind >>

X0c == /\ pc = "X0c"
       /\ IF Tok(i) = "RBRACES"
             THEN /\ errs' = Append(errs, "expected expression")
                  /\ pc' = Head(stack).pc
                  /\ stack' = Tail(stack)
             ELSE /\ pc' = "X0d"
                  /\ UNCHANGED << errs, stack >>
       /\ UNCHANGED << inp, toks, i, nilp, loose, eaten, depth, prec, closer, 
                       kind >>

X0d == /\ pc = "X0d"
       /\ /\ prec' = 1
          /\ stack' = << [ procedure |->  "parseExpr",
                           pc        |->  Head(stack).pc,
                           prec      |->  prec ] >>
                       \o Tail(stack)
       /\ pc' = "E0"
       /\ UNCHANGED << inp, toks, i, errs, nilp, loose, eaten, depth, closer, 
                       kind >>

X1 == /\ pc = "X1"
      /\ /\ prec' = 1
         /\ stack' = << [ procedure |->  "parseExpr",
                          pc        |->  "X2",
                          prec      |->  prec ] >>
                      \o stack
      /\ pc' = "E0"
      /\ UNCHANGED << inp, toks, i, errs, nilp, loose, eaten, depth, closer, 
                      kind >>

X2 == /\ pc = "X2"
      /\ IF Tok(i + 1) = "RBRACES"
            THEN /\ i' = i + 1
            ELSE /\ TRUE
                 /\ i' = i
      /\ pc' = "X3"
      /\ UNCHANGED << inp, toks, errs, nilp, loose, eaten, depth, stack, prec, 
                      closer, kind >>

X3 == /\ pc = "X3"
      /\ pc' = Head(stack).pc
      /\ stack' = Tail(stack)
      /\ UNCHANGED << inp, toks, i, errs, nilp, loose, eaten, depth, prec, 
                      closer, kind >>

parseEmbedded == X0 \/ X0a \/ X0b \/ X0c \/ X0d \/ X1 \/ X2 \/ X3

F0 == /\ pc = "F0"
      /\ IF Tok(i + 1) # "LPAREN"
            THEN /\ errs' = Append(errs, "expected (")
                 /\ pc' = Head(stack).pc
                 /\ stack' = Tail(stack)
            ELSE /\ pc' = "F1"
                 /\ UNCHANGED << errs, stack >>
      /\ UNCHANGED << inp, toks, i, nilp, loose, eaten, depth, prec, closer, 
                      kind >>

F1 == /\ pc = "F1"
      /\ i' = i + 1
      /\ pc' = "F1a"
      /\ UNCHANGED << inp, toks, errs, nilp, loose, eaten, depth, stack, prec, 
                      closer, kind >>

F1a == /\ pc = "F1a"
       /\ IF Tok(i + 1) # "SEMI"
             THEN /\ stack' = << [ procedure |->  "parseEmbedded",
                                   pc        |->  "F2" ] >>
                               \o stack
                  /\ pc' = "X0"
             ELSE /\ pc' = "F2"
                  /\ stack' = stack
       /\ UNCHANGED << inp, toks, i, errs, nilp, loose, eaten, depth, prec, 
                       closer, kind >>

F2 == /\ pc = "F2"
      /\ IF Tok(i + 1) # "SEMI"
            THEN /\ errs' = Append(errs, "expected ;")
                 /\ pc' = Head(stack).pc
                 /\ stack' = Tail(stack)
            ELSE /\ pc' = "F3"
                 /\ UNCHANGED << errs, stack >>
      /\ UNCHANGED << inp, toks, i, nilp, loose, eaten, depth, prec, closer, 
                      kind >>

F3 == /\ pc = "F3"
      /\ i' = i + 1
      /\ pc' = "F3a"
      /\ UNCHANGED << inp, toks, errs, nilp, loose, eaten, depth, stack, prec, 
                      closer, kind >>

F3a == /\ pc = "F3a"
       /\ IF Tok(i + 1) # "SEMI"
             THEN /\ i' = i + 1
                  /\ /\ prec' = 1
                     /\ stack' = << [ procedure |->  "parseExpr",
                                      pc        |->  "F4",
                                      prec      |->  prec ] >>
                                  \o stack
                  /\ pc' = "E0"
             ELSE /\ pc' = "F4"
                  /\ UNCHANGED << i, stack, prec >>
       /\ UNCHANGED << inp, toks, errs, nilp, loose, eaten, depth, closer, 
                       kind >>

F4 == /\ pc = "F4"
      /\ IF Tok(i + 1) # "SEMI"
            THEN /\ errs' = Append(errs, "expected ;")
                 /\ pc' = Head(stack).pc
                 /\ stack' = Tail(stack)
            ELSE /\ pc' = "F5"
                 /\ UNCHANGED << errs, stack >>
      /\ UNCHANGED << inp, toks, i, nilp, loose, eaten, depth, prec, closer, 
                      kind >>

F5 == /\ pc = "F5"
      /\ i' = i + 1
      /\ pc' = "F5a"
      /\ UNCHANGED << inp, toks, errs, nilp, loose, eaten, depth, stack, prec, 
                      closer, kind >>

F5a == /\ pc = "F5a"
       /\ IF Tok(i + 1) # "RPAREN"
             THEN /\ stack' = << [ procedure |->  "parseEmbedded",
                                   pc        |->  "F6" ] >>
                               \o stack
                  /\ pc' = "X0"
             ELSE /\ pc' = "F6"
                  /\ stack' = stack
       /\ UNCHANGED << inp, toks, i, errs, nilp, loose, eaten, depth, prec, 
                       closer, kind >>

F6 == /\ pc = "F6"
      /\ IF Tok(i + 1) # "RPAREN"
            THEN /\ errs' = Append(errs, "expected )")
                 /\ pc' = Head(stack).pc
                 /\ stack' = Tail(stack)
            ELSE /\ pc' = "F7"
                 /\ UNCHANGED << errs, stack >>
      /\ UNCHANGED << inp, toks, i, nilp, loose, eaten, depth, prec, closer, 
                      kind >>

F7 == /\ pc = "F7"
      /\ i' = i + 2
      /\ stack' = << [ procedure |->  "parseBlock",
                       pc        |->  "F8" ] >>
                   \o stack
      /\ pc' = "B0"
      /\ UNCHANGED << inp, toks, errs, nilp, loose, eaten, depth, prec, closer, 
                      kind >>

F8 == /\ pc = "F8"
      /\ IF Tok(i + 1) = "ELSE"
            THEN /\ i' = i + 2
                 /\ stack' = << [ procedure |->  "parseBlock",
                                  pc        |->  "F9" ] >>
                              \o stack
                 /\ pc' = "B0"
            ELSE /\ pc' = "F9"
                 /\ UNCHANGED << i, stack >>
      /\ UNCHANGED << inp, toks, errs, nilp, loose, eaten, depth, prec, closer, 
                      kind >>

F9 == /\ pc = "F9"
      /\ IF Tok(i + 1) = "END"
            THEN /\ i' = i + 1
                 /\ errs' = errs
            ELSE /\ errs' = Append(errs, "expected @end")
                 /\ i' = i
      /\ pc' = "FA"
      /\ UNCHANGED << inp, toks, nilp, loose, eaten, depth, stack, prec, 
                      closer, kind >>

FA == /\ pc = "FA"
      /\ pc' = Head(stack).pc
      /\ stack' = Tail(stack)
      /\ UNCHANGED << inp, toks, i, errs, nilp, loose, eaten, depth, prec, 
                      closer, kind >>

parseFor == F0 \/ F1 \/ F1a \/ F2 \/ F3 \/ F3a \/ F4 \/ F5 \/ F5a \/ F6
               \/ F7 \/ F8 \/ F9 \/ FA

D0 == /\ pc = "D0"
      /\ IF Tok(i + 1) # "LPAREN"
            THEN /\ errs' = Append(errs, "expected (")
                 /\ pc' = Head(stack).pc
                 /\ kind' = Head(stack).kind
                 /\ stack' = Tail(stack)
            ELSE /\ pc' = "D1"
                 /\ UNCHANGED << errs, stack, kind >>
      /\ UNCHANGED << inp, toks, i, nilp, loose, eaten, depth, prec, closer >>

D1 == /\ pc = "D1"
      /\ IF kind = "dump"
            THEN /\ i' = i + 1
                 /\ /\ closer' = "RPAREN"
                    /\ stack' = << [ procedure |->  "parseList",
                                     pc        |->  Head(stack).pc,
                                     closer    |->  closer ] >>
                                 \o Tail(stack)
                 /\ pc' = "L0"
                 /\ prec' = prec
            ELSE /\ IF kind = "cond"
                       THEN /\ i' = i + 2
                            /\ /\ prec' = 1
                               /\ stack' = << [ procedure |->  "parseExpr",
                                                pc        |->  Head(stack).pc,
                                                prec      |->  prec ] >>
                                            \o Tail(stack)
                            /\ pc' = "E0"
                       ELSE /\ i' = i + 2
                            /\ pc' = "D2"
                            /\ UNCHANGED << stack, prec >>
                 /\ UNCHANGED closer
      /\ UNCHANGED << inp, toks, errs, nilp, loose, eaten, depth, kind >>

D2 == /\ pc = "D2"
      /\ pc' = Head(stack).pc
      /\ kind' = Head(stack).kind
      /\ stack' = Tail(stack)
      /\ UNCHANGED << inp, toks, i, errs, nilp, loose, eaten, depth, prec, 
                      closer >>

parseArgDirective == D0 \/ D1 \/ D2

S0 == /\ pc = "S0"
      /\ IF Tok(i) \in {"LBRACES", "SEMI"}
            THEN /\ stack' = << [ procedure |->  "parseEmbedded",
                                  pc        |->  "S1" ] >>
                              \o stack
                 /\ pc' = "X0"
                 /\ UNCHANGED << loose, kind >>
            ELSE /\ IF Tok(i) = "FOR"
                       THEN /\ stack' = << [ procedure |->  "parseFor",
                                             pc        |->  "S1" ] >>
                                         \o stack
                            /\ pc' = "F0"
                            /\ UNCHANGED << loose, kind >>
                       ELSE /\ IF Tok(i) \in {"BREAK_IF", "CONTINUE_IF"}
                                  THEN /\ /\ kind' = "cond"
                                          /\ stack' = << [ procedure |->  "parseArgDirective",
                                                           pc        |->  "S1",
                                                           kind      |->  kind ] >>
                                                       \o stack
                                       /\ pc' = "D0"
                                       /\ loose' = loose
                                  ELSE /\ IF Tok(i) \in {"USE", "RESERVE"}
                                             THEN /\ /\ kind' = "name"
                                                     /\ stack' = << [ procedure |->  "parseArgDirective",
                                                                      pc        |->  "S1",
                                                                      kind      |->  kind ] >>
                                                                  \o stack
                                                  /\ pc' = "D0"
                                                  /\ loose' = loose
                                             ELSE /\ IF Tok(i) = "DUMP"
                                                        THEN /\ /\ kind' = "dump"
                                                                /\ stack' = << [ procedure |->  "parseArgDirective",
                                                                                 pc        |->  "S1",
                                                                                 kind      |->  kind ] >>
                                                                             \o stack
                                                             /\ pc' = "D0"
                                                             /\ loose' = loose
                                                        ELSE /\ IF Tok(i) = "IF"
                                                                   THEN /\ stack' = << [ procedure |->  "parseIf",
                                                                                         pc        |->  "S1" ] >>
                                                                                     \o stack
                                                                        /\ pc' = "I0"
                                                                        /\ loose' = loose
                                                                   ELSE /\ IF Tok(i) = "EACH"
                                                                              THEN /\ stack' = << [ procedure |->  "parseEach",
                                                                                                    pc        |->  "S1" ] >>
                                                                                                \o stack
                                                                                   /\ pc' = "C0"
                                                                                   /\ loose' = loose
                                                                              ELSE /\ IF Tok(i) = "INSERT"
                                                                                         THEN /\ stack' = << [ procedure |->  "parseInsert",
                                                                                                               pc        |->  "S1" ] >>
                                                                                                           \o stack
                                                                                              /\ pc' = "N0"
                                                                                              /\ loose' = loose
                                                                                         ELSE /\ IF Tok(i) = "COMPONENT"
                                                                                                    THEN /\ stack' = << [ procedure |->  "parseComponent",
                                                                                                                          pc        |->  "S1" ] >>
                                                                                                                      \o stack
                                                                                                         /\ pc' = "M0"
                                                                                                         /\ loose' = loose
                                                                                                    ELSE /\ IF Tok(i) = "SLOT" /\ depth = 0
                                                                                                               THEN /\ loose' = loose + 1
                                                                                                               ELSE /\ TRUE
                                                                                                                    /\ loose' = loose
                                                                                                         /\ pc' = "S1"
                                                                                                         /\ stack' = stack
                                                             /\ kind' = kind
      /\ UNCHANGED << inp, toks, i, errs, nilp, eaten, depth, prec, closer >>

S1 == /\ pc = "S1"
      /\ pc' = Head(stack).pc
      /\ stack' = Tail(stack)
      /\ UNCHANGED << inp, toks, i, errs, nilp, loose, eaten, depth, prec, 
                      closer, kind >>

parseStatement == S0 \/ S1

P0 == /\ pc = "P0"
      /\ IF Tok(i) # "EOF"
            THEN /\ stack' = << [ procedure |->  "parseStatement",
                                  pc        |->  "P1" ] >>
                              \o stack
                 /\ pc' = "S0"
                 /\ errs' = errs
            ELSE /\ IF inp.incode
                       THEN /\ errs' = Append(errs, "unexpected end of file")
                       ELSE /\ TRUE
                            /\ errs' = errs
                 /\ pc' = "P2a"
                 /\ stack' = stack
      /\ UNCHANGED << inp, toks, i, nilp, loose, eaten, depth, prec, closer, 
                      kind >>

P1 == /\ pc = "P1"
      /\ IF Tok(i) = "ILLEGAL"
            THEN /\ errs' = Append(errs, "illegal token")
                 /\ nilp' = TRUE
                 /\ pc' = "P3"
            ELSE /\ pc' = "P2"
                 /\ UNCHANGED << errs, nilp >>
      /\ UNCHANGED << inp, toks, i, loose, eaten, depth, stack, prec, closer, 
                      kind >>

P2 == /\ pc = "P2"
      /\ i' = i + 1
      /\ pc' = "P0"
      /\ UNCHANGED << inp, toks, errs, nilp, loose, eaten, depth, stack, prec, 
                      closer, kind >>

P2a == /\ pc = "P2a"
       /\ IF errs = <<>> /\ ~DevP2.IllegalSteppedOver /\ (\E k \in 1..Len(toks) : toks[k] = "ILLEGAL")
             THEN /\ errs' = Append(errs, "illegal token")
             ELSE /\ TRUE
                  /\ errs' = errs
       /\ pc' = "P3"
       /\ UNCHANGED << inp, toks, i, nilp, loose, eaten, depth, stack, prec, 
                       closer, kind >>

P3 == /\ pc = "P3"
      /\ TRUE
      /\ pc' = "Done"
      /\ UNCHANGED << inp, toks, i, errs, nilp, loose, eaten, depth, stack, 
                      prec, closer, kind >>

(* Allow infinite stuttering to prevent deadlock on termination. *)
Terminating == pc = "Done" /\ UNCHANGED vars

Next == parseExpr \/ parseList \/ parseObject \/ parseBlock \/ parseIf
           \/ parseEach \/ parseInsert \/ parseComponent \/ parseEmbedded
           \/ parseFor \/ parseArgDirective \/ parseStatement \/ P0 \/ P1 \/ P2
           \/ P2a \/ P3
           \/ Terminating

Spec == /\ Init /\ [][Next]_vars
        /\ WF_vars(Next)

Termination == <>(pc = "Done")

\* END TRANSLATION

Finished == pc = "Done"
\* C08: a nil program always comes with a recorded error
ProgramOrErrors == Finished => (nilp => errs # <<>>)
\* C08: a template cut inside an open construct is rejected
PrefixRejected == (Finished /\ inp.open) => errs # <<>>
\* C08: a template containing an illegal character is rejected, wherever the character stands
HasIllegal == \E k \in 1..Len(toks) : toks[k] = "ILLEGAL"
IllegalRejected == (Finished /\ HasIllegal) => errs # <<>>
\* C07 / C05: in an input where every @slot belongs to a component use, none is met as a statement of its own, and no
\* white space is consumed unless a slot follows it
SlotsOwned == (Finished /\ inp.owned) => (loose = 0 /\ eaten = 0)
\* the cursor only moves back for the one-token backUp of an empty block
CursorSane == i >= 0
=============================================================================
