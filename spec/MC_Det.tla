------------------------------- MODULE MC_Det -------------------------------
(* C14: programs and trees whose outcome could depend on the iteration order of a map (Go randomises it per       *)
(* iteration, which is the nondeterministic PickFile of TwLoader).  The loader machine is model-checked for        *)
(* Deterministic in MC_Loader; here TLC enumerates the order-sensitive cases and the harness runs each N times in  *)
(* one process and in fresh processes: all results must be identical (no particular order is demanded).            *)
EXTENDS Integers, Sequences, FiniteSets, TLC, Json, SequencesExt

CONSTANTS Family, Emit_
VARIABLES cas, rec
vars == <<cas, rec>>

Keys == <<"a", "b", "c", "d", "e", "f">>
Num == "num"  BadV == "bad"  MixV == "mix"
BadVal(i) == CASE i % 3 = 1 -> "zz" \o ToString(i) [] i % 3 = 2 -> "(1 / 0)" [] OTHER -> "(1 + \"s\")"
Val(mode, i) == CASE mode = "num" -> ToString(i) [] mode = "bad" -> BadVal(i) [] mode = "mix" -> IF i % 2 = 0 THEN BadVal(i) ELSE ToString(i)
\* other key alphabets: keys that differ in letter case only, keys that are prefixes of each other, digits and underscores
KeysOf(ks) == CASE ks = 1 -> Keys [] ks = 2 -> <<"name", "Name", "NAME", "id", "ID", "Id">> [] ks = 3 -> <<"a", "ab", "abc", "B", "b", "Ab">>
                [] ks = 4 -> <<"k1", "k10", "k2", "K1", "_k", "k_">>
                [] ks = 5 -> <<"9", "10", "1a", "1", "01", "2">>        \* (data maps only) keys that look like numbers: any fixed order will do
RECURSIVE ObjSrcK(_, _, _)
ObjSrcK(n, mode, ks) == IF n = 0 THEN "" ELSE (IF n = 1 THEN "" ELSE ObjSrcK(n - 1, mode, ks) \o ", ") \o KeysOf(ks)[n] \o ": " \o Val(mode, n)
ObjK(n, mode, ks) == "{" \o ObjSrcK(n, mode, ks) \o "}"
Obj(n, mode) == ObjK(n, mode, 1)
ObjDataK(n, ks) == [t |-> "obj", v |-> [i \in 1..n |-> [k |-> KeysOf(ks)[i], v |-> [t |-> "int", b |-> "z", o |-> i]]]]
IntV(i) == [t |-> "int", b |-> "z", o |-> i]
ObjData(n) == [t |-> "obj", v |-> [i \in 1..n |-> [k |-> Keys[i], v |-> IntV(i)]]]
Render(src, data, gdata, tag) == [kind |-> "render", src |-> src, data |-> data, gdata |-> gdata, tags |-> <<"c14", tag>>]
Chan == [g |-> "unsupported", u |-> "chan"]
Func == [g |-> "unsupported", u |-> "func"]
Cplx == [g |-> "unsupported", u |-> "complex"]
GI == [g |-> "int", w |-> "int", which |-> "five"]
RenderCases ==
     {Render("{{ " \o Obj(n, Num) \o " }}", <<>>, <<>>, "print-object") : n \in 2..6}
\cup {Render("@dump(" \o Obj(n, Num) \o ")", <<>>, <<>>, "dump-object") : n \in 2..6}
\cup {Render("{{ o }}|@dump(o)|{{ [o, o] }}", <<[k |-> "o", v |-> ObjData(n)]>>, <<>>, "data-object") : n \in 2..6}
\cup {Render("{{ " \o ObjK(n, Num, ks) \o " }}|@dump(" \o ObjK(n, Num, ks) \o ")", <<>>, <<>>, "print-object-keys") : n \in 2..6, ks \in 2..4}
\cup {Render("{{ o }}|@dump(o)|{{ [o, o] }}", <<[k |-> "o", v |-> ObjDataK(n, ks)]>>, <<>>, "data-object-keys") : n \in 2..6, ks \in 2..5}
\cup {Render("{{ x = " \o ObjK(n, Num, ks) \o " }}{{ x }}@each(o in [x, x]){{ o }};@end", <<>>, <<>>, "assigned-object-keys") : n \in 2..6, ks \in 2..4}
\cup {Render("{{ " \o ObjK(n, BadV, ks) \o " }}", <<>>, <<>>, "failing-entries-keys") : n \in 2..6, ks \in 2..4}
\cup {Render("{{ " \o Obj(n, BadV) \o " }}", <<>>, <<>>, "failing-entries") : n \in 2..6}
\cup {Render("@component(\"x\", [" \o Obj(n, Num) \o "])", <<>>, <<>>, "error-text-with-object") : n \in 2..6}
\cup {Render("{{ " \o Obj(n, Num) \o ".zz }}", <<>>, <<>>, "error-text-with-object") : n \in 2..6}
\cup {Render("{{ " \o Obj(n, Num) \o " + 1 }}", <<>>, <<>>, "error-text-with-object") : n \in 2..6}
\cup {Render("{{ " \o Obj(n, MixV) \o " }}", <<>>, <<>>, "failing-entries") : n \in 4..6}
\cup {Render("{{ x = " \o Obj(n, Num) \o " }}{{ x }}{{ x.a }}", <<>>, <<>>, "assigned-object") : n \in 2..4}
\cup {Render("@each(o in [" \o Obj(3, Num) \o ", " \o Obj(4, Num) \o "]){{ o }};@end", <<>>, <<>>, "objects-in-loop")}
\cup {Render("x", <<>>, <<[k |-> "p", v |-> Chan], [k |-> "q", v |-> Func]>>, "unsupported-data"),
      Render("x", <<>>, <<[k |-> "p", v |-> Chan], [k |-> "q", v |-> Func], [k |-> "r", v |-> Cplx], [k |-> "s", v |-> GI]>>, "unsupported-data"),
      Render("x", <<>>, <<[k |-> "m", v |-> [g |-> "map", ps |-> <<[k |-> "a", v |-> Chan], [k |-> "b", v |-> Func], [k |-> "c", v |-> Cplx]>>]]>>, "unsupported-data"),
      Render("{{ m }}", <<>>, <<[k |-> "m", v |-> [g |-> "map", ps |-> <<[k |-> "a", v |-> GI], [k |-> "b", v |-> GI], [k |-> "c", v |-> GI], [k |-> "d", v |-> GI]>>]]>>, "data-object"),
      Render("{{ loop }}{{ x }}", <<>>, <<[k |-> "loop", v |-> GI], [k |-> "x", v |-> Chan]>>, "unsupported-data")}

F(n, src) == [name |-> n, src |-> src, kind |-> ""]
Tree(files, page, tag) == [kind |-> "tree", files |-> files, cfg |-> [dir |-> "t", ext |-> ".tw"], page |-> page, tags |-> <<"c14", tag>>]
Lay == F("layouts/main", "<h>@reserve(\"a\")</h>")
Card == F("components/card", "[@slot(\"x\")|@slot(\"y\")|{{ n }}]")
TreeCases ==
  {Tree(<<Lay, F("home", "@use(\"~main\")@insert(\"p\", 1)@insert(\"q\", 2)@insert(\"r\", 3)")>>, "home", "undefined-inserts"),
   Tree(<<Lay, F("home", "@use(\"~main\")@insert(\"a\", 0)@insert(\"p\", 1)@insert(\"q\", 2)@insert(\"r\", 3)@insert(\"s\", 4)")>>, "home", "undefined-inserts"),
   Tree(<<Card, F("home", "@component(\"~card\", {n: 1})@slot(\"x\")1@end@slot(\"x\")2@end@slot(\"y\")3@end@slot(\"y\")4@end@end")>>, "home", "duplicate-slots"),
   Tree(<<Card, F("home", "@component(\"~card\", {n: 1})@slot(\"x\")1@end@slot(\"y\")3@end@slot(\"y\")4@end@slot(\"x\")2@end@slot(\"x\")5@end@end")>>, "home", "duplicate-slots"),
   Tree(<<Card, F("home", "@component(\"~card\", {n: 1})@slot(\"p\")1@end@slot(\"q\")2@end@slot(\"r\")3@end@slot(\"s\")4@end@end")>>, "home", "unknown-slots"),
   Tree(<<Card, F("home", "@component(\"~card\", {n: 1})@slot(\"x\")0@end@slot(\"q\")2@end@slot(\"p\")1@end@slot3@end@end")>>, "home", "unknown-slots"),
   Tree(<<Card, F("home", "@component(\"~ghost1\")@component(\"~ghost2\")@component(\"~ghost3\")@component(\"~card\", {n: 1})@slot(\"zz\")1@end@end")>>, "home", "faulty-components"),
   Tree(<<Card, F("components/other", "@slot(\"a\")"), F("home", "@component(\"~other\")@slot(\"b\")1@end@end@component(\"~card\", {n: 1})@slot(\"q\")2@end@end@component(\"~nope\")")>>, "home", "faulty-components"),
   Tree(<<F("a", "@if("), F("b", "{{ 1 + }}"), F("c", "@each(x on y)@end"), F("d", "ok")>>, "d", "faulty-files"),
   Tree(<<F("a", "@use(\"ghost\")"), F("b", "@component(\"phantom\")"), F("c", "{{ ~ }}"), F("sub/d", "{{ \"x }}"), F("e", "fine")>>, "e", "faulty-files"),
   Tree(<<Card, F("home", "@component(\"~card\", {n: zz, m: yy, k: 1 / 0})")>>, "home", "failing-arguments"),
   Tree(<<Card, F("home", "@component(\"~card\", " \o Obj(6, BadV) \o ")")>>, "home", "failing-arguments"),
   Tree(<<F("components/o", "{{ a }}{{ b }}{{ c }}{{ d }}"), F("home", "@component(\"~o\", " \o Obj(4, Num) \o ")|@component(\"~o\", {d: 9, c: 8, b: 7, a: 6})")>>, "home", "component-arguments"),
   Tree(<<Card, F("home", "{{ x = 1 }}{{ y = 2 }}{{ n = true }}@component(\"~card\", {x: \"s\", y: \"t\", n: 3, loop: 4})")>>, "home", "unbindable-arguments"),
   Tree(<<Card, F("home", "@each(q in [1, 2]){{ x = 1 }}{{ y = 2.5 }}@component(\"~card\", {x: \"s\", y: \"t\", n: loop, q: \"z\", loop: q})@end")>>, "home", "unbindable-arguments"),
   Tree(<<Card, F("home", "@component(\"~card\", [" \o Obj(5, Num) \o "])")>>, "home", "error-text-with-object"),
   Tree(<<Card, F("home", "@component(\"~card\", " \o Obj(4, Num) \o ".a)")>>, "home", "error-text-with-object"),
   Tree(<<F("a", "A"), F("b", "B"), F("c/d", "D"), F("c/e", "E"), F("f", "@dump(" \o Obj(5, Num) \o ")")>>, "f", "many-files")}

\* "every time, within one process": the same source rendered after a success, after a failure that had already produced
\* output, after a failure at its very start - every arrangement of up to four renders over these sources
Goods == {"{{ x = 1 }}{{ x }}", "{{ x = \"s\" }}{{ x }}", "@each(x in [1.5]){{ x }}@end",
          "@dump(1)x", "@dump([1, 2])",
          "x{{ 1 }}y", "{{ " \o Obj(3, Num) \o " }}", "@each(v in [1, 2])<{{ v }}>@end"}
Fails == {"{{ x }}", "{{ y = 2 }}{{ x }}",
          "@dump(1){{ zz }}", "@dump({a: 1})@if(true){{ 1 / 0 }}@end",
          "partial {{ 1 }}{{ zz }}", "@each(v in [1, 2])p{{ v }}{{ 1 / (v - 2) }}@end", "head@if(true)in{{ 1 + \"s\" }}@end", "{{ zz }}never"}
Srcs == Goods \cup Fails
\* expok: whether each step renders or fails - the same whatever ran before it in the process
OkOf(steps) == [i \in 1..Len(steps) |-> steps[i] \in Goods]
SeqCases == {[kind |-> "seq", steps |-> <<a, b, c>>, expok |-> OkOf(<<a, b, c>>), tags |-> <<"c14", "sequence">>] : a \in Srcs, b \in Fails, c \in Srcs}
            \cup {[kind |-> "seq", steps |-> <<a, b, a, c, a>>, expok |-> OkOf(<<a, b, a, c, a>>), tags |-> <<"c14", "sequence">>] : a \in Goods, b \in Fails, c \in Fails}
            \cup {[kind |-> "seq", steps |-> <<a, b, c>>, expok |-> OkOf(<<a, b, c>>), tags |-> <<"c14", "sequence">>] : a \in Goods, b \in Goods, c \in Srcs}
\* one loaded Template rendered with several data maps in a row (components without arguments read the caller's data)
DStr(k, v) == [k |-> k, v |-> [t |-> "str", v |-> v]]
DInt(k, n) == [k |-> k, v |-> [t |-> "int", b |-> "z", o |-> n]]
DataTrees == {[kind |-> "tree", files |-> <<F("components/who", "[{{ who }}:{{ n }}]"), F("layouts/main", "<l>@reserve(\"c\")</l>{{ who }}"),
                                            F("home", "@use(\"~main\")@insert(\"c\")@component(\"~who\")@each(x in [1, 2])@component(\"~who\")@end@end")>>,
               cfg |-> [dir |-> "t", ext |-> ".tw"], page |-> "home", datas |-> ds, tags |-> <<"c14", "one-template-several-data">>] :
               ds \in {<<<<DStr("who", "A"), DInt("n", 1)>>, <<DStr("who", "B"), DInt("n", 2)>>, <<DStr("who", "A"), DInt("n", 1)>>>>,
                       <<<<DStr("who", "A"), DInt("n", 1)>>, <<DStr("who", "B")>>, <<DInt("n", 3)>>>>,
                       <<<<DInt("who", 5), DInt("n", 1)>>, <<DStr("who", "s"), DStr("n", "t")>>>>}}
\* several template directories loaded one after the other in one process: files of the same names with other content. What a
\* directory renders is what ITS files say - the model's answer per step, whatever was loaded before
TreeOf3(c, l, p) == <<F("components/c", c), F("layouts/main", l \o "[@reserve(\"x\")]"), F("home", "@use(\"~main\")@insert(\"x\")" \o p \o "<@component(\"~c\")>@end")>>
Step3(c, l, p) == [files |-> TreeOf3(c, l, p), want |-> "OUT " \o l \o "[" \o p \o "<" \o c \o ">]"]
TreeSeqs == {[kind |-> "treeseq", tsteps |-> st, cfg |-> [dir |-> "t", ext |-> ".tw"], page |-> "home", tags |-> <<"c14", "directories-in-a-row">>] :
               st \in {<<Step3("A", "L1", "p"), Step3("B", "L1", "p"), Step3("A", "L1", "p")>>,
                       <<Step3("A", "L1", "p"), Step3("A", "L2", "p"), Step3("A", "L1", "q")>>,
                       <<Step3("one", "L", "p"), Step3("", "L", "p"), Step3("two", "", "")>>,
                       <<Step3("B", "L2", "q"), Step3("A", "L1", "p")>>}}
\* failing Responses in a row under configurations that differ in the debug flag: what Response writes depends on the
\* configuration in force, not on what was written before (same flag, same body; no message or path with the flag off)
RespSeqs == {[kind |-> "respseq", files |-> <<F("bad", "x{{ 1 / 0 }}"), F("bad2", "y{{ zz }}")>>, cfg |-> [dir |-> "t", ext |-> ".tw"], debugs |-> ds, pages |-> ps,
              tags |-> <<"c14", "responses-in-a-row">>] :
               ds \in {<<TRUE, FALSE>>, <<FALSE, TRUE, FALSE>>, <<TRUE, TRUE, FALSE, FALSE>>, <<FALSE, FALSE>>}, ps \in {<<"bad", "bad", "bad", "bad">>, <<"bad", "bad2", "bad", "bad2">>}}
Cases == RenderCases \cup TreeCases \cup SeqCases \cup DataTrees \cup TreeSeqs \cup RespSeqs
Init == cas \in Cases /\ rec = FALSE
Next == ~rec /\ rec' = TRUE /\ UNCHANGED cas
Spec == Init /\ [][Next]_vars
Gen == (rec /\ Emit_) => PrintT(ToJson(cas))
=============================================================================
