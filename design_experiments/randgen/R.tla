---- MODULE R ----
EXTENDS Integers, Sequences, TLC, Json
Ops == {"+", "-", "*", "/"}
RECURSIVE RandTree(_, _)
RandTree(d, salt) == IF d = 0 \/ RandomElement(1..4) = 1 THEN [k |-> "leaf", v |-> RandomElement({"a","b","c"})]
               ELSE [k |-> "bin", op |-> RandomElement(Ops), l |-> RandTree(d - 1, 2*salt), r |-> RandTree(d - 1, 2*salt+1)]
RECURSIVE Show(_)
Show(t) == IF t.k = "leaf" THEN t.v ELSE "(" \o Show(t.l) \o " " \o t.op \o " " \o Show(t.r) \o ")"
VARIABLE t
Init == t \in { RandTree(3, i) : i \in 1..8 }
Next == UNCHANGED t
Dump == PrintT(Show(t))
====
