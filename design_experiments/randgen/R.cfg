INIT Init
NEXT Next
INVARIANT Dump
