CONSTANT RightBPMode = "sum"
INIT Init
NEXT Next
INVARIANT RoundTrip
