CONSTANT RightBPMode = "own"
INIT Init
NEXT Next
INVARIANT RoundTrip
