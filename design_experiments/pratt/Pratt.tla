---- MODULE Pratt ----
EXTENDS Integers, Sequences, TLC, Json

CONSTANTS RightBPMode   \* "sum" = as the code does (fixed SUM), "own" = operator's own precedence

LOWEST == 1  TERNARY == 2  EQ == 3  LG == 4  SUM == 5  PRODUCT == 6  MEMBER == 7  PREFIX == 8  CALL == 9  INDEX == 10  POSTFIX == 11

BinOps == {"+", "-", "*", "/", "%", "==", "!=", "<", ">", "<=", ">="}
Prec(op) == CASE op \in {"==", "!="} -> EQ
              [] op \in {"<", ">", "<=", ">="} -> LG
              [] op \in {"+", "-"} -> SUM
              [] op \in {"*", "/", "%"} -> PRODUCT
              [] op = "?" -> TERNARY
              [] OTHER -> LOWEST

Leaves == {"a", "b", "c"}
Leaf(x) == [k |-> "leaf", v |-> x]
Bin(op, l, r) == [k |-> "bin", op |-> op, l |-> l, r |-> r]

\* all left/right nested triples
T2 == { Bin(op, Leaf("a"), Leaf("b")) : op \in BinOps }
T3L == { Bin(o2, Bin(o1, Leaf("a"), Leaf("b")), Leaf("c")) : o1 \in BinOps, o2 \in BinOps }
T3R == { Bin(o1, Leaf("a"), Bin(o2, Leaf("b"), Leaf("c"))) : o1 \in BinOps, o2 \in BinOps }
Trees == T2 \cup T3L \cup T3R

\* minimal-parenthesis unparse under the *stated* grammar: left assoc, prec table
RECURSIVE Toks(_, _)
\* ctx = minimal precedence the subtree must have to appear without parens
Toks(t, ctx) ==
  IF t.k = "leaf" THEN << t.v >>
  ELSE LET p == Prec(t.op)
           inner == Toks(t.l, p) \o << t.op >> \o Toks(t.r, p + 1)
       IN IF p < ctx THEN << "(" >> \o inner \o << ")" >> ELSE inner

\* Pratt parser as in parser.go: parseExpression(prec) with infix loop
RightBP(op) == IF RightBPMode = "sum" THEN SUM ELSE Prec(op)

RECURSIVE ParseExpr(_, _, _), InfixLoop(_, _, _, _)
\* returns [t |-> tree, i |-> index of last consumed token]
ParseExpr(toks, i, prec) ==
  LET tok == toks[i]
      left == IF tok = "("
              THEN LET r == ParseExpr(toks, i + 1, LOWEST) IN [t |-> r.t, i |-> r.i + 1]  \* expect ")"
              ELSE [t |-> Leaf(tok), i |-> i]
  IN InfixLoop(toks, left.t, left.i, prec)

InfixLoop(toks, left, i, prec) ==
  IF i + 1 > Len(toks) THEN [t |-> left, i |-> i]
  ELSE LET pk == toks[i + 1] IN
       IF pk = ")" \/ ~(prec < Prec(pk)) THEN [t |-> left, i |-> i]
       ELSE LET r == ParseExpr(toks, i + 2, RightBP(pk))
            IN InfixLoop(toks, Bin(pk, left, r.t), r.i, prec)

Parse(toks) == ParseExpr(toks, 1, LOWEST).t

VARIABLE t
Init == t \in Trees
Next == UNCHANGED t
RoundTrip == Parse(Toks(t, LOWEST)) = t
====
