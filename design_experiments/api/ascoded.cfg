CONSTANTS G = {1, 2}
 StringEvalWritesMode = TRUE
INIT Init
NEXT Next
INVARIANT SoloEq
CHECK_DEADLOCK FALSE
