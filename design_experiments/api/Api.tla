---- MODULE Api ----
EXTENDS Integers, Sequences, TLC, FiniteSets
CONSTANTS G, StringEvalWritesMode   \* goroutines; deviation switch (TRUE = as coded)
VARIABLES mode, pc, op, path, res
vars == <<mode, pc, op, path, res>>
OpsSet == {"String_ok", "String_bad", "Response_bad", "EvalString"}
Solo(o) == CASE o = "String_ok" -> "out:ok"
             [] o = "String_bad" -> "err@dir/bad"
             [] o = "Response_bad" -> "errpage+err@dir/bad"
             [] o = "EvalString" -> "out:str"
Init == mode = TRUE /\ pc = [g \in G |-> "idle"] /\ op \in [G -> OpsSet] /\ path = [g \in G |-> ""] /\ res = [g \in G |-> ""]
Start(g) == pc[g] = "idle" /\ pc' = [pc EXCEPT ![g] = IF op[g] = "EvalString" THEN "wmode" ELSE "rmode"] /\ UNCHANGED <<mode, op, path, res>>
ReadMode(g) == pc[g] = "rmode" /\ path' = [path EXCEPT ![g] = IF mode THEN "dir/" ELSE ""]
               /\ pc' = [pc EXCEPT ![g] = "eval"] /\ UNCHANGED <<mode, op, res>>
Eval(g) == /\ pc[g] = "eval"
           /\ LET name == IF op[g] = "String_ok" THEN "ok" ELSE "bad"
                  r == IF name = "ok" THEN "out:ok" ELSE "err@" \o path[g] \o "bad" IN
              IF op[g] = "Response_bad"
              THEN /\ res' = [res EXCEPT ![g] = "errpage+" \o r] /\ pc' = [pc EXCEPT ![g] = "wmode"]
              ELSE /\ res' = [res EXCEPT ![g] = r] /\ pc' = [pc EXCEPT ![g] = "done"]
           /\ UNCHANGED <<mode, op, path>>
WriteMode(g) == /\ pc[g] = "wmode"
                /\ mode' = IF StringEvalWritesMode THEN FALSE ELSE mode
                /\ res' = [res EXCEPT ![g] = IF op[g] = "EvalString" THEN "out:str" ELSE res[g]]
                /\ pc' = [pc EXCEPT ![g] = "done"] /\ UNCHANGED <<op, path>>
Next == \E g \in G : Start(g) \/ ReadMode(g) \/ Eval(g) \/ WriteMode(g)
SoloEq == \A g \in G : pc[g] = "done" => res[g] = Solo(op[g])
====
