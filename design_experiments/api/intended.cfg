CONSTANTS G = {1, 2}
 StringEvalWritesMode = FALSE
INIT Init
NEXT Next
INVARIANT SoloEq
CHECK_DEADLOCK FALSE
