CONSTANTS
  Alphabet = {1}
  MaxLen = 0
INIT OneInit
NEXT Next
INVARIANT NoPanic
CHECK_DEADLOCK FALSE
