---- MODULE One ----
EXTENDS TwLexer, Json
OneInit == /\ inp = <<123,123,45,45,125,92,64,105,102>>
           /\ p = 1 /\ html = TRUE /\ isDir = FALSE /\ parens = 0 /\ braces = 0 /\ toks = <<>> /\ done = FALSE
====
