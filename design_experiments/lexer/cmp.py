import sys, json, subprocess
TT = ["ILLEGAL","EOF","IDENT","HTML","INT","FLOAT","STR","ADD","SUB","MUL","DIV","MOD","INC","DEC","NOT","ASSIGN","EQ","NOT_EQ","LTHAN","GTHAN","LTHAN_EQ","GTHAN_EQ","LBRACES","RBRACES","LBRACE","RBRACE","LPAREN","RPAREN","LBRACKET","RBRACKET","QUESTION","COLON","COMMA","DOT","SEMI","TRUE","FALSE","NIL","IN","IF","ELSE","ELSE_IF","END","FOR","USE","EACH","BREAK_IF","CONTINUE_IF","INSERT","RESERVE","BREAK","CONTINUE","COMPONENT","SLOT","DUMP"]
def tla_unquote(line):
    # PrintT prints a TLA+ string: "...." with \" and \\ escapes
    assert line[0] == '"' and line[-1] == '"'
    body = line[1:-1]
    out = []; i = 0
    while i < len(body):
        c = body[i]
        if c == '\\':
            n = body[i+1]
            out.append({'"':'"','\\':'\\','n':'\n','t':'\t','r':'\r','f':'\f'}[n]); i += 2
        else:
            out.append(c); i += 1
    return ''.join(out)
def pos(inp, idx):
    # 1-based index -> (line, col), extended past the end
    line = 0; col = 0
    for k in range(1, idx):
        if k <= len(inp) and inp[k-1] == 10:
            line += 1; col = 0
        else:
            col += 1
    return line, col
spec = {}
for line in open(sys.argv[1]):
    line = line.rstrip('\n')
    if line.startswith('"{'):
        rec = json.loads(tla_unquote(line))
        spec[tuple(rec["inp"])] = rec["toks"]
inputs = "\n".join(json.dumps({"inp": list(k)}) for k in spec) + "\n"
res = subprocess.run(["/tmp/probe/lexdump/lexdump"], input=inputs, capture_output=True, text=True)
n = bad = 0
for line in res.stdout.splitlines():
    rec = json.loads(line); n += 1
    inp = rec["inp"]; real = rec["toks"]; st = spec[tuple(inp)]
    exp = []
    for t in st:
        if t["t"] == "PANIC":
            exp.append(("PANIC",)); continue
        sl, sc = pos(inp, t["s"]); el, ec = pos(inp, t["e"])
        if t["t"] == "ILLEGAL":
            # as coded: end = position of previous char
            el, ec = pos(inp, t["e"]) if t["e"] >= 1 else (0, 0)
        exp.append((t["t"], tuple(t["lit"]), sl, sc, el, ec))
    got = []
    for t in real:
        if t["t"] == -1: got.append(("PANIC",)); continue
        got.append((TT[t["t"]], tuple(t["lit"]), t["sl"], t["sc"], t["el"], t["ec"]))
    if exp != got:
        bad += 1
        if bad <= 15:
            print("MISMATCH", repr(bytes(inp)), "\n  spec:", exp, "\n  real:", got)
print("compared", n, "mismatches", bad)
