---- MODULE MCLexer ----
EXTENDS TwLexer, Json
MCAlphabet == {123, 125, 45, 92, 64, 105, 102, 34, 10, 32, 40, 41}
\* { } - \ @ i f " \n space ( )
Dump == done => PrintT(ToJson([inp |-> inp, toks |-> toks]))
====
