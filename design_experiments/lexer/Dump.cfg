CONSTANTS
  Alphabet <- MCAlphabet
  MaxLen = 4
SPECIFICATION Spec
INVARIANTS Dump
CHECK_DEADLOCK FALSE
