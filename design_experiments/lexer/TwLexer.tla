---------------------------- MODULE TwLexer ----------------------------
(* PROTOTYPE: char-level model of lexer/lexer.go (as coded).              *)
EXTENDS Integers, Sequences, TLC, TwKeywords

CONSTANTS Alphabet, MaxLen

VARIABLES inp, p, html, isDir, parens, braces, toks, done

vars == <<inp, p, html, isDir, parens, braces, toks, done>>

Ch(i) == IF i >= 1 /\ i <= Len(inp) THEN inp[i] ELSE 0

IsLetter(c) == (c >= 97 /\ c <= 122) \/ (c >= 65 /\ c <= 90)
IsIdent(c)  == IsLetter(c) \/ c = 95
IsLetterWord(c) == IsLetter(c) \/ c = 64
IsNum(c)    == c >= 48 /\ c <= 57
IsWS(c)     == c \in {32, 9, 10, 13}

Simple == [x \in {42, 63, 47, 37, 44, 91, 93, 46, 59, 58} |->
            CASE x = 42 -> "MUL" [] x = 63 -> "QUESTION" [] x = 47 -> "DIV" [] x = 37 -> "MOD"
              [] x = 44 -> "COMMA" [] x = 91 -> "LBRACKET" [] x = 93 -> "RBRACKET"
              [] x = 46 -> "DOT" [] x = 59 -> "SEMI" [] x = 58 -> "COLON"]

Sub(i, j) == IF j < i THEN <<>> ELSE [k \in 1..(j - i + 1) |-> Ch(i + k - 1)]

LookupDirective(w) == IF \E d \in Directives : d.w = w
                      THEN (CHOOSE d \in Directives : d.w = w).t ELSE "ILLEGAL"
LookupIdent(w) == IF \E d \in Keywords : d.w = w
                  THEN (CHOOSE d \in Keywords : d.w = w).t ELSE "IDENT"

\* isDirectiveToken at position i : <<isDirective, escaped>>
DirAt(i) ==
  IF Ch(i) # 64 THEN <<FALSE, FALSE>>
  ELSE IF \E n \in 1..LongestDirective :
            i + n - 1 <= Len(inp) /\ LookupDirective(Sub(i, i + n - 1)) # "ILLEGAL"
       THEN IF Ch(i - 1) = 92 /\ i > 1 THEN <<FALSE, TRUE>> ELSE <<TRUE, FALSE>>
       ELSE <<FALSE, FALSE>>

BracesAt(i) == LET b == Ch(i) = 123 /\ Ch(i + 1) = 123
                   pb == IF i > 1 THEN Ch(i - 1) ELSE 0
               IN <<b /\ pb # 92, b /\ pb = 92>>

RECURSIVE SkipWS(_)
SkipWS(i) == IF IsWS(Ch(i)) THEN SkipWS(i + 1) ELSE i

\* readHTML from i : returns [e |-> last consumed index, lit |-> literal, panic |-> BOOLEAN]
RECURSIVE ScanHTML(_, _)
ScanHTML(i, lit) ==
  IF Ch(i) = 0 THEN [e |-> i - 1, lit |-> lit, panic |-> FALSE]
  ELSE LET d == DirAt(i)  b == BracesAt(i) IN
       IF b[1] \/ d[1] THEN [e |-> i - 1, lit |-> lit, panic |-> FALSE]
       ELSE IF (d[2] \/ b[2]) /\ lit = <<>> THEN [e |-> i - 1, lit |-> lit, panic |-> TRUE]
       ELSE LET l2 == IF d[2] \/ b[2] THEN SubSeq(lit, 1, Len(lit) - 1) ELSE lit
            IN ScanHTML(i + 1, Append(l2, Ch(i)))

\* skipComment starting at i (first char after "{{") : returns new p
RECURSIVE SkipComment(_)
SkipComment(i) ==
  IF Ch(i) = 0 THEN i + 2
  ELSE IF ~(Ch(i) = 45 /\ Ch(i + 1) = 45) THEN SkipComment(i + 1)
  ELSE IF Ch(i + 2) = 125 \/ Ch(i + 3) = 125 THEN i + 4
  ELSE SkipComment(i + 2)

\* readDirective from i : [t, e]
RECURSIVE ScanDir(_, _)
ScanDir(i, s) ==
  IF ~IsLetterWord(Ch(i)) THEN [t |-> LookupDirective(Sub(s, i - 1)), e |-> i - 1]
  ELSE LET tok == LookupDirective(Sub(s, i))
           long == (tok = "ELSE" /\ Ch(i + 1) = 105 /\ Ch(i + 2) = 102)
                \/ (tok \in {"BREAK", "CONTINUE"} /\ Ch(i + 1) = 73 /\ Ch(i + 2) = 102)
       IN IF ~long /\ tok # "ILLEGAL" THEN [t |-> tok, e |-> i] ELSE ScanDir(i + 1, s)

RECURSIVE ScanStr(_, _)
\* k = l.pos at the head of the readString loop, q = quote; returns l.pos when the loop ends
ScanStr(k, q) ==
  IF Ch(k) = 0 THEN k
  ELSE IF Ch(k + 1) = q /\ Ch(k) # 92 THEN k + 1
  ELSE ScanStr(k + 1, q)

RECURSIVE Unesc(_, _)
Unesc(s, q) == IF Len(s) = 0 THEN <<>>
               ELSE IF Len(s) >= 2 /\ s[1] = 92 /\ s[2] = q THEN <<q>> \o Unesc(SubSeq(s, 3, Len(s)), q)
               ELSE <<s[1]>> \o Unesc(Tail(s), q)

RECURSIVE ScanIdent(_)
ScanIdent(i) == IF IsIdent(Ch(i)) \/ IsNum(Ch(i)) THEN ScanIdent(i + 1) ELSE i - 1

RECURSIVE ScanNum(_, _)
ScanNum(i, isInt) ==
  IF IsNum(Ch(i)) THEN ScanNum(i + 1, isInt)
  ELSE IF Ch(i) = 46 /\ IsNum(Ch(i + 1)) THEN ScanNum(i + 1, FALSE)
  ELSE [e |-> i - 1, int |-> isInt]

Tok(t, lit, s, e) == [t |-> t, lit |-> lit, s |-> s, e |-> e]

Emit(tk, np) == /\ toks' = Append(toks, tk)
                /\ p' = np

(* ---- code-mode token at position i (after whitespace) ---- *)
CodeToken(i) ==
  LET c == Ch(i) IN
  CASE c \in DOMAIN Simple ->
         /\ Emit(Tok(Simple[c], <<c>>, i, i), i + 1) /\ UNCHANGED <<html, isDir, parens, braces>>
    [] c = 123 -> /\ Emit(Tok("LBRACE", <<c>>, i, i), i + 1) /\ braces' = braces + 1
                  /\ UNCHANGED <<html, isDir, parens>>
    [] c = 125 -> /\ Emit(Tok("RBRACE", <<c>>, i, i), i + 1) /\ braces' = braces - 1
                  /\ UNCHANGED <<html, isDir, parens>>
    [] c = 40 -> /\ Emit(Tok("LPAREN", <<c>>, i, i), i + 1)
                 /\ parens' = IF isDir THEN parens + 1 ELSE parens
                 /\ UNCHANGED <<html, isDir, braces>>
    [] c = 41 -> LET np == IF isDir THEN parens - 1 ELSE parens
                     close == isDir /\ np = 0 IN
                 /\ Emit(Tok("RPAREN", <<c>>, i, i), i + 1)
                 /\ parens' = np
                 /\ isDir' = IF close THEN FALSE ELSE isDir
                 /\ html' = IF close THEN TRUE ELSE html
                 /\ UNCHANGED braces
    [] c \in {34, 39} ->
         (IF Ch(i + 1) = c
          THEN Emit(Tok("STR", <<>>, i, i + 1), i + 2)
          ELSE LET j == ScanStr(i + 1, c)   \* closing quote or EOF index
               IN Emit(Tok("STR", Unesc(Sub(i + 1, j - 1), c), i, j), j + 1))
         /\ UNCHANGED <<html, isDir, parens, braces>>
    [] c = 60 -> (IF Ch(i + 1) = 61 THEN Emit(Tok("LTHAN_EQ", <<60, 61>>, i, i + 1), i + 2)
                  ELSE Emit(Tok("LTHAN", <<60>>, i, i), i + 1)) /\ UNCHANGED <<html, isDir, parens, braces>>
    [] c = 62 -> (IF Ch(i + 1) = 61 THEN Emit(Tok("GTHAN_EQ", <<62, 61>>, i, i + 1), i + 2)
                  ELSE Emit(Tok("GTHAN", <<62>>, i, i), i + 1)) /\ UNCHANGED <<html, isDir, parens, braces>>
    [] c = 33 -> (IF Ch(i + 1) = 61 THEN Emit(Tok("NOT_EQ", <<33, 61>>, i, i + 1), i + 2)
                  ELSE Emit(Tok("NOT", <<33>>, i, i), i + 1)) /\ UNCHANGED <<html, isDir, parens, braces>>
    [] c = 45 -> (IF Ch(i + 1) = 45 THEN Emit(Tok("DEC", <<45, 45>>, i, i + 1), i + 2)
                  ELSE Emit(Tok("SUB", <<45>>, i, i), i + 1)) /\ UNCHANGED <<html, isDir, parens, braces>>
    [] c = 43 -> (IF Ch(i + 1) = 43 THEN Emit(Tok("INC", <<43, 43>>, i, i + 1), i + 2)
                  ELSE Emit(Tok("ADD", <<43>>, i, i), i + 1)) /\ UNCHANGED <<html, isDir, parens, braces>>
    [] c = 61 -> (IF Ch(i + 1) = 61 THEN Emit(Tok("EQ", <<61, 61>>, i, i + 1), i + 2)
                  ELSE Emit(Tok("ASSIGN", <<61>>, i, i), i + 1)) /\ UNCHANGED <<html, isDir, parens, braces>>
    [] IsIdent(c) -> LET e == ScanIdent(i) IN
                     /\ Emit(Tok(LookupIdent(Sub(i, e)), Sub(i, e), i, e), e + 1)
                     /\ UNCHANGED <<html, isDir, parens, braces>>
    [] IsNum(c) -> LET r == ScanNum(i, TRUE) IN
                   /\ Emit(Tok(IF r.int THEN "INT" ELSE "FLOAT", Sub(i, r.e), i, r.e), r.e + 1)
                   /\ UNCHANGED <<html, isDir, parens, braces>>
    [] OTHER -> /\ Emit(Tok("ILLEGAL", <<c>>, i, i - 1), i)
                /\ UNCHANGED <<html, isDir, parens, braces>>

(* ---- one NextToken() call at position i with html flag h (comment recursion unfolded) ---- *)
RECURSIVE AfterComments(_, _)
\* returns [i, h]: position and html flag after skipping any number of leading comments
AfterComments(i0, h) ==
  LET i == IF h THEN i0 ELSE SkipWS(i0) IN
  IF Ch(i) = 123 /\ Ch(i + 1) = 123 /\ Ch(i + 2) = 45 /\ Ch(i + 3) = 45
  THEN AfterComments(SkipComment(i + 2), TRUE)
  ELSE [i |-> i, h |-> h]

Step ==
  /\ ~done
  /\ UNCHANGED inp
  /\ LET a == AfterComments(p, html)
         i == a.i
         h == a.h
     IN
     IF Ch(i) = 0 THEN
        /\ Emit(Tok("EOF", <<>>, i, i), i) /\ done' = TRUE /\ html' = h
        /\ UNCHANGED <<isDir, parens, braces>>
     ELSE IF Ch(i) = 123 /\ Ch(i + 1) = 123 THEN
        /\ Emit(Tok("LBRACES", <<123, 123>>, i, i + 1), i + 2) /\ html' = FALSE
        /\ UNCHANGED <<isDir, parens, braces, done>>
     ELSE IF Ch(i) = 125 /\ Ch(i + 1) = 125 /\ braces = 0 THEN
        /\ Emit(Tok("RBRACES", <<125, 125>>, i, i + 1), i + 2) /\ html' = TRUE
        /\ UNCHANGED <<isDir, parens, braces, done>>
     ELSE IF ~h THEN
        /\ CodeToken(i)
        /\ done' = (Ch(i) \notin DOMAIN Simple /\ Ch(i) \notin {123,125,40,41,34,39,60,62,33,45,43,61}
                    /\ ~IsIdent(Ch(i)) /\ ~IsNum(Ch(i)))   \* ILLEGAL stops the stream
     ELSE IF DirAt(i)[1] THEN
        LET r == ScanDir(i, i)
            opt == r.t = "SLOT" /\ Ch(r.e + 1) = 40
            nopar == r.t \in {"ELSE", "END", "BREAK", "CONTINUE", "SLOT"}
            d == opt \/ ~nopar
        IN /\ Emit(Tok(r.t, Sub(i, r.e), i, r.e), r.e + 1)
           /\ isDir' = d /\ html' = ~d
           /\ UNCHANGED <<parens, braces, done>>
     ELSE
        LET r == ScanHTML(i, <<>>) IN
        IF r.panic THEN /\ Emit(Tok("PANIC", <<>>, i, i), i) /\ done' = TRUE
                        /\ UNCHANGED <<html, isDir, parens, braces>>
        ELSE /\ Emit(Tok("HTML", r.lit, i, r.e), r.e + 1) /\ html' = h
             /\ UNCHANGED <<isDir, parens, braces, done>>

RECURSIVE SeqsUpTo(_)
SeqsUpTo(n) == IF n = 0 THEN {<<>>}
               ELSE LET S == SeqsUpTo(n - 1) IN S \cup {Append(s, c) : s \in S, c \in Alphabet}

Init == /\ inp \in SeqsUpTo(MaxLen)
        /\ p = 1 /\ html = TRUE /\ isDir = FALSE /\ parens = 0 /\ braces = 0
        /\ toks = <<>> /\ done = FALSE

Next == Step

Spec == Init /\ [][Next]_vars /\ WF_vars(Next)

(* ---------------- properties (design level) ---------------- *)
\* progress: every step either finishes or advances the cursor
Progress == [][done' \/ p' > p]_vars
Terminates == <>done

\* tokens are ordered and do not overlap (C19)
Ordered == \A k \in 1..Len(toks) - 1 : toks[k].e < toks[k + 1].s \/ toks[k+1].t \in {"EOF", "ILLEGAL", "PANIC"}
WellFormedSpan == \A k \in 1..Len(toks) : toks[k].t \in {"EOF", "ILLEGAL", "PANIC"} \/ toks[k].s <= toks[k].e
EOFAtEnd == done /\ toks[Len(toks)].t = "EOF" => toks[Len(toks)].s = Len(inp) + 1
NoPanic == \A k \in 1..Len(toks) : toks[k].t # "PANIC"
=============================================================================
