CONSTANTS
  Alphabet <- MCAlphabet
  MaxLen = 4
SPECIFICATION Spec
INVARIANTS WellFormedSpan Ordered EOFAtEnd NoPanic
PROPERTIES Progress Terminates
CHECK_DEADLOCK FALSE
