CONSTANTS MaxLen = 4
  BlockStopsAtEOF = FALSE
SPECIFICATION Spec
INVARIANT StepBound
CHECK_DEADLOCK FALSE
