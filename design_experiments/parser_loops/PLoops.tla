------------------------------ MODULE PLoops ------------------------------
(* PROTOTYPE: statement-level control skeleton of parser.go as a PlusCal     *)
(* program with procedures. Tokens are abstract classes.                     *)
EXTENDS Integers, Sequences, TLC

CONSTANTS MaxLen, BlockStopsAtEOF   \* FALSE = as coded (parseBlockStmt ignores EOF)

Classes == {"HTML", "IF", "ELSEIF", "ELSE", "END"}   \* IF/ELSEIF stand for "@if(cond)" / "@elseif(cond)"

RECURSIVE SeqsUpTo(_)
SeqsUpTo(n) == IF n = 0 THEN {<<>>} ELSE LET S == SeqsUpTo(n - 1) IN S \cup {Append(s, c) : s \in S, c \in Classes}

(* --fair algorithm PLoops
variables toks \in SeqsUpTo(MaxLen), i = 1, errs = 0, steps = 0;

define
  Tok(k) == IF k <= Len(toks) THEN toks[k] ELSE "EOF"
  Cur == Tok(i)
  Peek == Tok(i + 1)
end define;

procedure parseBlock()
begin
 B0: while Cur # "END" /\ ~(BlockStopsAtEOF /\ Cur = "EOF") do
       steps := steps + 1;
       call parseStatement();
 B1:   if Peek \in {"ELSE", "ELSEIF", "END"} then
         goto B3;
       end if;
 B2:   i := i + 1;
     end while;
 B3: return;
end procedure;

procedure parseIf()
begin
 I0: i := i + 1;                       \* skip header (cond and ")" are inside the class)
     call parseBlock();
 I1: while Peek = "ELSEIF" do
       steps := steps + 1;
       i := i + 2;                     \* move to @elseif, skip it
       call parseBlock();
     end while;
 I2: if Peek = "ELSE" then
       i := i + 2;
       call parseBlock();
     end if;
 I3: if Peek = "END" then
       i := i + 1;
     else
       errs := errs + 1;              \* expectPeek(END) failed
     end if;
 I4: return;
end procedure;

procedure parseStatement()
begin
 S0: if Cur = "IF" then
       call parseIf();
     end if;
 S1: return;
end procedure;

begin
 P0: while Cur # "EOF" do
       steps := steps + 1;
       call parseStatement();
 P1:   i := i + 1;
     end while;
end algorithm; *)
\* BEGIN TRANSLATION
\* END TRANSLATION

StepBound == steps <= 4 * (MaxLen + 2)
=============================================================================
