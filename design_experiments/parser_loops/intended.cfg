CONSTANTS MaxLen = 4
  BlockStopsAtEOF = TRUE
SPECIFICATION Spec
INVARIANT StepBound
CHECK_DEADLOCK FALSE
PROPERTY Termination
