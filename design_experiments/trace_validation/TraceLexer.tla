---------------------------- MODULE TraceLexer ----------------------------
EXTENDS TwLexer, Json, FiniteSets, SequencesExt

Traces == ndJsonDeserialize("/tmp/tv/traces.ndjson")

VARIABLES tr, l, bad

TT == <<"ILLEGAL","EOF","IDENT","HTML","INT","FLOAT","STR","ADD","SUB","MUL","DIV","MOD","INC","DEC","NOT","ASSIGN","EQ","NOT_EQ","LTHAN","GTHAN","LTHAN_EQ","GTHAN_EQ","LBRACES","RBRACES","LBRACE","RBRACE","LPAREN","RPAREN","LBRACKET","RBRACKET","QUESTION","COLON","COMMA","DOT","SEMI","TRUE","FALSE","NIL","IN","IF","ELSE","ELSE_IF","END","FOR","USE","EACH","BREAK_IF","CONTINUE_IF","INSERT","RESERVE","BREAK","CONTINUE","COMPONENT","SLOT","DUMP">>

\* ground-truth position of 1-based byte offset i (extended past the end): <<line, col>>
RECURSIVE PosFrom(_, _, _, _)
PosFrom(k, i, line, col) == IF k >= i THEN <<line, col>>
                            ELSE IF Ch(k) = 10 THEN PosFrom(k + 1, i, line + 1, 0)
                            ELSE PosFrom(k + 1, i, line, col + 1)
Pos(i) == PosFrom(1, i, 0, 0)

\* what the spec token looks like in the implementation's vocabulary
Proj(tk) == LET ps == Pos(tk.s)
                pe == IF tk.t = "ILLEGAL" /\ tk.e < 1 THEN <<0, 0>> ELSE Pos(tk.e)
            IN [t |-> tk.t, lit |-> tk.lit, sl |-> ps[1], sc |-> ps[2], el |-> pe[1], ec |-> pe[2]]
Logged(r) == [t |-> TT[r.t + 1], lit |-> r.lit, sl |-> r.sl, sc |-> r.sc, el |-> r.el, ec |-> r.ec]

LexInit(input) == /\ inp = input /\ p = 1 /\ html = TRUE /\ isDir = FALSE /\ parens = 0
                  /\ braces = 0 /\ toks = <<>> /\ done = FALSE

TraceInit == /\ tr = 1 /\ l = 1 /\ bad = <<>> /\ LexInit(Traces[1].inp)

TraceStep == /\ bad = <<>>
             /\ l <= Len(Traces[tr].toks)
             /\ Step
             /\ LET got == Logged(Traces[tr].toks[l])
                    exp == Proj(toks'[Len(toks')])
                IN bad' = IF got = exp THEN <<>> ELSE <<tr, l, exp, got>>
             /\ l' = l + 1 /\ tr' = tr

\* the implementation stopped but the model can still take a step, or vice versa
TraceReset == /\ bad = <<>>
              /\ l > Len(Traces[tr].toks)
              /\ tr < Len(Traces)
              /\ tr' = tr + 1 /\ l' = 1
              /\ bad' = IF done THEN <<>> ELSE <<tr, l, "model not done", "trace ended">>
              /\ inp' = Traces[tr + 1].inp /\ p' = 1 /\ html' = TRUE /\ isDir' = FALSE /\ parens' = 0
              /\ braces' = 0 /\ toks' = <<>> /\ done' = FALSE

TraceNext == TraceStep \/ TraceReset
tvars == <<vars, tr, l, bad>>
TraceSpec == TraceInit /\ [][TraceNext]_tvars

NoMismatch == bad = <<>>
\* design-level invariants evaluated on every recorded prefix (intended: would include EOFAtEnd etc.)
TraceOrdered == Ordered
Expected == Len(Traces) + FoldLeft(LAMBDA acc, r : acc + Len(r.toks), 0, Traces)    \* events + resets + initial state
TraceAccepted == TLCGet("stats").diameter = Expected
=============================================================================
