CONSTANTS
  Alphabet = {1}
  MaxLen = 0
SPECIFICATION TraceSpec
INVARIANTS NoMismatch TraceOrdered
POSTCONDITION TraceAccepted
CHECK_DEADLOCK FALSE
