DEFAULT_NOTE = ("Trusts TLC 1.8.0, the CommunityModules Json module, the Go toolchain and the harness's materialisation of "
                "model values; exhaustive only inside the bounds stated in the evidence 'rule'; the verdict comes from the "
                "real code's behaviour on each TLC-generated case, judged against the model's prediction where a property "
                "fixes it.")
PENDING = ("check under construction in this round (specification module not yet bound to the code); will be claimed once "
           "its TLC model and replay harness exist")
NOT_APPLICABLE = {}
HOOKS = {"guard": "verif",
         "enable": "go build -tags verif (the harness module replaces github.com/textwire/textwire/v2 with /repo)",
         "baseline_off_cmd": "cd /repo && GOFLAGS=-mod=mod go test -vet=off -count=1 ./...",
         "source_commits": ["3b9ca79", "e6a31ab"], "add_only": True}
NOTES = ("All checks: bin/check <id> quick|thorough; exit 0 held / 1 violation / 2 infrastructure. Known findings and "
         "fixed defects: known_findings.json. Design: DESIGN.md.")
ENGINES = [
    {"name": "tla-lexer", "path": "spec/TwLexer.tla, spec/MC_Lexer.tla, harness/fam_lex.go",
     "serves_properties": ["C05", "C08", "C19"],
     "kind_free_text": "TLA+ byte-level model of the lexer (machine L); TLC enumerates inputs and checks invariants; the Go harness replays every input on the real lexer/parser/EvaluateString"},
    {"name": "tla-expr", "path": "spec/TwValues.tla, spec/TwExpr.tla, spec/MC_Expr.tla, harness/fam_render.go",
     "serves_properties": ["C01"],
     "kind_free_text": "TLA+ value domain, C01 binding-power table, Pratt parser model and expression evaluator; TLC checks RoundTrip and generates (source, data, expected) records replayed through EvaluateString"},
    {"name": "tla-eval", "path": "spec/TwEval.tla, spec/MC_Eval.tla, harness/fam_render.go",
     "serves_properties": ["C02", "C03", "C04"],
     "kind_free_text": "TLA+ small-step model of the evaluator (control stack, scope chain, output); TLC runs every program of the bounded families checking invariants in every state and emits expected outputs replayed through EvaluateString"},
]
ENGINES += [
    {"name": "tla-text", "path": "spec/MC_Text.tla, harness/fam_render.go", "serves_properties": ["C10", "C13"],
     "kind_free_text": "TLA+ specification of escaping (Escape/Unescape lemmas) and of sources assembled from segments with known newline counts; TLC enumerates literals x contexts and faults x preambles x placements; replayed through EvaluateString"},
    {"name": "tla-builtins", "path": "spec/TwBuiltins.tla, spec/MC_Builtins.tla, harness/fam_render.go", "serves_properties": ["C11"],
     "kind_free_text": "TLA+ contracts of the built-in functions over character sequences, arrays, anchored ints and dyadic floats; TLC enumerates each built-in's small domain and checks lemmas; replayed through EvaluateString"},
]
ENGINES += [
    {"name": "tla-data", "path": "spec/MC_Data.tla, harness/fam_data.go", "serves_properties": ["C12"],
     "kind_free_text": "TLA+ universe of Go values (GoVal) with the intended conversion Conv and access paths; the harness materialises each value with reflect and renders every path"},
    {"name": "tla-link", "path": "spec/TwLink.tla, spec/TwLoader.tla, spec/MC_Link.tla, spec/MC_Tree.tla, spec/MC_Loader.tla, spec/MC_Det.tla, harness/fam_tree.go, harness/fam_det.go",
     "serves_properties": ["C06", "C07", "C14", "C18"],
     "kind_free_text": "TLA+ linker (layouts, components, slots) feeding machine E, and the loader state machine with nondeterministic file order (AllOrNothing, Deterministic model-checked); template trees are written to disk and loaded with NewTemplate after VerifReset"},
]
ENGINES += [
    {"name": "tla-api", "path": "spec/TwApi.tla, spec/MC_Api.tla, spec/MC_Reg.tla, harness/fam_api.go, harness/fam_reg.go",
     "serves_properties": ["C15", "C16", "C17", "C20"],
     "kind_free_text": "TLA+ machine A: package-level state (mode flag, sticky configuration, registry), operations split at shared accesses, goroutine program counters; TLC explores interleavings and histories; the harness replays schedules with blocking gate hooks, histories with state snapshots, and stress runs under the race detector"},
]
T_REPLAY = "explicit TLA+ specification checked by TLC; TLC-generated behaviours replayed into the real code"
CLAIMED = {
    "C01": {"engine": "tla-expr", "technique": T_REPLAY,
            "text": "TLC enumerates every pair (thorough: every triple in all five shapes) of the 11 binary operators, unary/postfix/ternary/index/member forms mixed with each operator, assignment right-hand sides, and the faults C01 lists; it checks on each tree that the specification's Pratt parser with the C01 table recovers the tree from minimal, full and redundant parenthesisations (RoundTrip), evaluates it with the typed semantics of spec/TwValues.tla, and the harness requires EvaluateString to produce exactly that value (or an error where C01 demands one) in every layout."},
    "C02": {"engine": "tla-eval", "technique": T_REPLAY,
            "text": "TLC runs every @if chain of the bounded families on the small-step evaluator model (first truthy branch only, later conditions unevaluated, truthiness table shared with ?:, @breakIf, @continueIf) and the harness requires EvaluateString to produce the model's output, or an error exactly when a raising condition precedes the first truthy one."},
    "C03": {"engine": "tla-eval", "technique": T_REPLAY + "; scope-machine traces recorded from the real evaluator validated against spec/Trace_Env.tla",
            "text": "TLC runs every loop program of the bounded families (each/for, jumps at every body position and under nested @if, nesting, @else bodies, non-array headers) on the evaluator model, checking LoopMeta / ScopeBalance / OutMonotone in every state, and the harness requires the same output from EvaluateString (and from NewTemplate + String). Recorded SetLoopVar events are validated against spec/Trace_Env.tla: index / iter / first of every pass must agree with each other and no pass may follow the one marked last."},
    "C04": {"engine": "tla-eval", "technique": T_REPLAY + "; scope-machine traces recorded from the real evaluator validated against spec/Trace_Env.tla",
            "text": "TLC runs assignment/read sequences placed around and inside every block skeleton with every data map of the family, checking TypeStable / LoopReserved / ScopeBalance in every state; reads print, so the visible environment is observable and the harness requires the model's output or error from EvaluateString (and from NewTemplate + String on the same source as a file). In the other direction every scope creation, Set, SetLoopVar and identifier lookup of the real evaluator is recorded through the verif hooks and TLC steps the trace against spec/Trace_Env.tla: a Set that stores although the name is visible with another type, or stores the name loop, is a violation."},
    "C06": {"engine": "tla-link", "technique": T_REPLAY,
            "text": "TLC links every page of the bounded families to its layout with spec/TwLink.tla (reserves filled by the page's inserts, block or expression form; undefined / duplicate insert, missing layout, layout-in-layout are errors) and runs the linked program on machine E; the harness writes the tree to disk, loads it with NewTemplate and requires the model's output from String(), or a load / render error that identifies the faulty file."},
    "C07": {"engine": "tla-link", "technique": T_REPLAY,
            "text": "TLC links every component use to ITS OWN copy of the component program with the caller's slot bodies substituted (spec/TwLink.tla LinkComp) and runs pages with 1..3 uses, uses inside loops / conditionals / slot bodies / inserts on machine E (arguments evaluated at the place of use, bound in a fresh scope); the harness requires the model's output, or a load error naming the component for undeclared / duplicated slots and missing files."},
    "C12": {"engine": "tla-data", "technique": T_REPLAY,
            "text": "TLC enumerates Go values by type-directed recursion (spec/MC_Data.tla) and every access path into the converted value; the harness builds each value with reflect (StructOf, typed slices, pointers), renders the path through EvaluateString and EnvFromMap, requires the model's printed form (or 'not reachable' / 'unsupported' errors) and that the caller's data is DeepEqual to a fresh copy afterwards."},
    "C14": {"engine": "tla-link", "technique": "explicit TLA+ loader machine model-checked for Deterministic; TLC-generated order-sensitive cases run repeatedly on the real code",
            "text": "The loader machine picks files in any order under the as-coded switch; TLC checks on the intended design that the outcome is a function of the tree (Deterministic) for every tree of the family and every order. TLC also enumerates the order-sensitive programs and trees, and the harness runs each N times in one process and in several fresh processes (Go randomises map order per iteration, which explores the model's choices): all results must be byte-identical."},
    "C15": {"engine": "tla-api", "technique": "explicit TLA+ interleaving model checked by TLC; every TLC schedule replayed on real goroutines through gate hooks; race detector on model-driven stress runs",
            "text": "TLC checks SoloEq (every call returns what it returns alone) and RenderFramesState over every interleaving of the shared-state accesses of 2-3 goroutines and every assignment of render operations; each maximal schedule is replayed on the real code with goroutines released at verifGate points in TLC's order and every result compared with the operation's solo result; the same operation multisets then run free under the race detector (zero reports required)."},
    "C16": {"engine": "tla-api", "technique": T_REPLAY,
            "text": "TLC enumerates every history up to the bound over the render operations on a fixed tree and checks SoloEq / RenderFramesState; the harness replays each history after VerifReset + reload: every result must equal the same operation issued first in a fresh state, and the package-state snapshot, the loaded programs (VerifPrograms) and the caller's data must be unchanged after every step."},
    "C17": {"engine": "tla-api", "technique": T_REPLAY,
            "text": "TLC checks the ResponseBody selection table on machine A for every configuration (debug, custom error page present / configured but missing / absent) and page kind; the harness performs each Response on an httptest recorder and classifies the body: the rendered page iff no error, exactly the selected error page otherwise, no part of the failed page, no message or path with debug off, both with debug on."},
    "C20": {"engine": "tla-api", "technique": T_REPLAY,
            "text": "The registry is a TLA+ state machine (first registration wins and stays, per-type independence, built-in shadows custom, callable before and after load); TLC checks the action properties and generates every history up to the bound for pairs of receiver types; the harness replays them with functions whose canned results identify the registration and compares the registry snapshot; a TLA+-generated conversion family checks the Go types and values received for every value kind, and results are compared with the same Go value passed as data."},
    "C18": {"engine": "tla-link", "technique": T_REPLAY,
            "text": "TLC enumerates trees over a file-name alphabet built to separate 'ends in the extension' from 'contains the extension' x directory spellings x extensions with the names the specification assigns, and every single-file fault of a valid page+layout+component tree (deleted, garbage, empty, dangling symlink, directory, truncation at every chunk boundary); the loader machine is model-checked for AllOrNothing. The harness loads each tree: registered names must equal the model's set, layouts and unknown names are not renderable, a fault gives (nil, error identifying the file), EvaluateFile equals EvaluateString."},
    "C09": {"engine": "tla-expr", "technique": T_REPLAY,
            "text": "The specification's operators are total (value, demanded error, or unspecified): TLC evaluates the complete kind-confusion matrix (11 binary operators x 16 x 16 value kinds, prefix/postfix/index/member/ternary forms over every kind, raw templates with absent loop clauses and misplaced directives) and the harness replays every case under recover() and a watchdog: no panic, no hang, the predicted value or error where a property fixes it, and a line >= 1 on every evaluation error. Built-in argument domains are covered by C11's families and nil pointers / unsupported data by C12's."},
    "C10": {"engine": "tla-text", "technique": T_REPLAY,
            "text": "TLC checks the escaping lemmas (no raw angle bracket, every & is an entity, quotes kept, Unescape(Escape(l)) = l) for every literal over the 14-character alphabet one character beyond the replayed bound, and generates every literal x quote style x 14 usage contexts (raw() in four of them); the harness requires exactly the escaped, or the original, text from EvaluateString."},
    "C11": {"engine": "tla-builtins", "technique": T_REPLAY,
            "text": "TLC enumerates every built-in over its whole small domain (see evidence rule), checks contract lemmas, and the harness requires the contract value (or membership for rand/shuffle, or an error for wrong/missing arguments), the unchanged receiver, valid UTF-8 output, and that custom functions registered under built-in names do not take precedence."},
    "C13": {"engine": "tla-text", "technique": T_REPLAY,
            "text": "Sources are assembled in TLA+ from multi-line segments with known newline counts, so the line of the injected single-line fault is ground truth; TLC enumerates faults x preamble sequences x placements (top level, @if, @else, @each, @for) and the harness requires an error on exactly that line from EvaluateString. File paths are covered with the template-tree families (C06/C07/C18)."},
    "C05": {"engine": "tla-lexer", "technique": T_REPLAY,
            "text": "TLC model-checks the byte-level lexer model over every byte string up to the bound over three adversarial alphabets and every lexeme sequence up to the bound (Passthrough, Tiling, NoPanic, Progress, Terminates) and prints one record per input; the harness replays every record through EvaluateString: where the model classifies the input as text/escapes/comments/{{ INT }} the output must equal the model's rendering."},
    "C08": {"engine": "tla-lexer", "technique": T_REPLAY,
            "text": "Same TLC enumeration of machine L; every input is lexed and parsed by the real code under a watchdog (hang/panic detection with loop-site sampling); program-xor-errors, error lines >= 1, and a recorded error for every input the model tags as illegal byte / unterminated string / unterminated comment / end of input in code mode / more block openers than @end."},
    "C19": {"engine": "tla-lexer", "technique": T_REPLAY,
            "text": "Same TLC enumeration; TLC checks the Tiling invariant (span, order, own text, gaps, EOF position) on the model's tokens for every input; the harness evaluates the same predicates on the real lexer's tokens plus cursor containment through token.Position.Contains for every byte cursor; token-level differences with the model are reported as drift."},
}
