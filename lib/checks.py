"""Per-property check plans. Each takes a vp.Run and returns the exit code."""
import json
import os
import subprocess

import vp

CHECKS = {}


def check(pid):
    def deco(f):
        CHECKS[pid] = f
        return f
    return deco


# ------------------------------------------------------------------ machine L (lexer): C05, C19
LEX_INV = "InvTiling InvNoPanic InvCursor Passthrough Gen"


def lexer_cfg(alpha, maxlen, emit=True):
    return """CONSTANTS
  Dev <- DevIntended
  Alphabet <- %s
  MaxLen = %d
  Emit_ = %s
  Mode = "bytes"
SPECIFICATION Spec
INVARIANTS %s
PROPERTIES Progress Terminates
CHECK_DEADLOCK FALSE
""" % (alpha, maxlen, "TRUE" if emit else "FALSE", LEX_INV)


def lexseq_cfg(lexset, maxlen):
    return """CONSTANTS
  Dev <- DevIntended
  Alphabet <- %s
  MaxLen = %d
  Emit_ = TRUE
  Mode = "lexemes"
SPECIFICATION Spec
INVARIANTS %s
PROPERTIES Progress Terminates
CHECK_DEADLOCK FALSE
""" % (lexset, maxlen, LEX_INV)


def lexer_generate(run):
    """Model-check machine L over the bounded families and return the list of generated case files."""
    files = []
    if run.tier == "quick":
        plan = [("bytes", "AlphaA", 4), ("bytes", "AlphaB", 4), ("bytes", "AlphaC", 4), ("lexemes", "LexemesA", 3)]
    else:
        plan = [("bytes", "AlphaA", 5), ("bytes", "AlphaB", 5), ("bytes", "AlphaC", 5), ("lexemes", "LexemesA", 4),
                ("lexemes", "LexemesB", 4)]
    for mode, alpha, n in plan:
        cfg = lexer_cfg(alpha, n) if mode == "bytes" else lexseq_cfg(alpha, n)
        st = run.tlc("MC_Lexer", cfg, name="MC_Lexer_%s_%d" % (alpha, n), timeout=1500)
        path, cnt = run.records(st)
        files.append(path)
    return files


def lexer_check(run, prop, rule):
    files = lexer_generate(run)
    for f in files:
        run.replay("lex", f, prop=prop, name="lex-%s-%d" % (prop, files.index(f)))
        run.add_samples(f, 1)
    return vp.finish(run, "model_checking", rule, exhaustive=True,
                     assumptions=["TLC 1.8.0 and the CommunityModules Json module",
                                  "the harness's conversion of (line, column) to byte offsets"])


@check("C05")
def c05(run):
    return lexer_check(run, "C05",
                       "every byte string up to the length bound over three adversarial 12-byte alphabets and every "
                       "sequence of lexemes up to the bound is lexed by the TLA+ model of machine L (TLC checks "
                       "Passthrough/Tiling on each) and rendered by EvaluateString; a case is non-trivial when the model "
                       "classifies it as text / escapes / comments / {{ INT }} only, so that C05 fixes its output")


@check("C19")
def c19(run):
    return lexer_check(run, "C19",
                       "same inputs as C05; the real lexer's tokens are judged by the C19 predicates (span, order, own "
                       "text, gaps, EOF position, cursor containment through token.Position.Contains); non-trivial = "
                       "more than two tokens")


@check("C08")
def c08(run):
    return lexer_check(run, "C08",
                       "same inputs as C05; lexing and parsing must return, with a program xor recorded errors that carry "
                       "a line; inputs the model ends in an error token (unterminated comment / string, illegal byte in "
                       "code) must be rejected; non-trivial = must-be-rejected inputs")


def replay(path):
    rec = json.load(open(path))
    prop = rec["property"]
    run = vp.Run(prop, "quick", 1)
    try:
        cases = os.path.join(run.dir, "replay.ndjson")
        with open(cases, "w") as f:
            f.write(json.dumps(rec["result"]["case"]) + "\n")
        bad = run.replay(rec["family"], cases, prop=prop, workers=1)
        for r in bad:
            print("REPRODUCED property=%s kind=%s site=%s msg=%s" % (prop, r.get("kind"), r.get("site"), r.get("msg")))
        if not bad:
            print("not reproduced")
        return 1 if bad else 0
    finally:
        run.cleanup()


def selftest(args):
    print("selftest: not implemented yet")
    return 0
