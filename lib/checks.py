"""Per-property check plans. Each takes a vp.Run and returns the exit code."""
import json
import os
import re
import subprocess

import vp

CHECKS = {}


def check(pid):
    def deco(f):
        CHECKS[pid] = f
        return f
    return deco


# ------------------------------------------------------------------ machine L (lexer): C05, C19
LEX_INV = "InvTiling InvNoPanic InvCursor Passthrough Gen"


def lexer_cfg(alpha, maxlen, emit=True):
    return """CONSTANTS
  Dev <- DevIntended
  Alphabet <- %s
  MaxLen = %d
  Emit_ = %s
  Mode = "bytes"
SPECIFICATION Spec
INVARIANTS %s
PROPERTIES Progress Terminates
CHECK_DEADLOCK FALSE
""" % (alpha, maxlen, "TRUE" if emit else "FALSE", LEX_INV)


def lexseq_cfg(lexset, maxlen):
    return """CONSTANTS
  Dev <- DevIntended
  Alphabet <- %s
  MaxLen = %d
  Emit_ = TRUE
  Mode = "lexemes"
SPECIFICATION Spec
INVARIANTS %s
PROPERTIES Progress Terminates
CHECK_DEADLOCK FALSE
""" % (lexset, maxlen, LEX_INV)


def lexer_generate(run, prop=None):
    """Model-check machine L over the bounded families and return the list of generated case files."""
    files = []
    if prop == "C08" and run.tier == "quick":
        plan = [("bytes", "AlphaA", 4), ("lexemes", "LexemesA", 3), ("lexemes", "LexemesBlk", 3), ("lexemes", "LexemesExpr", 3),
                ("lexemes", "LexemesDir", 3), ("lexemes", "LexemesW", 3)]
    elif prop == "C08":
        plan = [("bytes", "AlphaA", 5), ("bytes", "AlphaC", 5), ("lexemes", "LexemesA0", 4), ("lexemes", "LexemesA", 3), ("lexemes", "LexemesB", 4),
                ("lexemes", "LexemesBlk", 4), ("lexemes", "LexemesExpr", 4), ("lexemes", "LexemesDir", 3), ("lexemes", "LexemesW", 4)]
        # (LexemesDir has 28 lexemes: depth 4 = 614 k inputs did not finish within 25 minutes)
    elif run.tier == "quick":
        plan = [("bytes", "AlphaA", 4), ("bytes", "AlphaB", 4), ("bytes", "AlphaC", 4), ("lexemes", "LexemesA", 3),
                ("lexemes", "LexemesU", 4), ("lexemes", "LexemesW", 3)]
    else:
        plan = [("bytes", "AlphaA", 5), ("bytes", "AlphaB", 5), ("bytes", "AlphaC", 5), ("lexemes", "LexemesA0", 4), ("lexemes", "LexemesA", 3),
                ("lexemes", "LexemesB", 4), ("lexemes", "LexemesU", 4), ("lexemes", "LexemesW", 4)]
    for mode, alpha, n in plan:
        cfg = lexer_cfg(alpha, n) if mode == "bytes" else lexseq_cfg(alpha, n)
        st = run.tlc("MC_Lexer", cfg, name="MC_Lexer_%s_%d" % (alpha, n), timeout=3000)
        path, cnt = run.records(st)
        files.append(path)
    return files


TRACE_LEXER_CFG = """CONSTANTS
  Dev <- DevIntended
  TracePath = "%s"
SPECIFICATION TraceSpec
INVARIANTS Gen
POSTCONDITION AllConsumed
CHECK_DEADLOCK FALSE
"""


def repo_corpus(run):
    """Inputs of the repository's own tests, collected through the verif hook in lexer.New (VERIF_LEX_CORPUS)."""
    path = os.path.join(run.dir, "corpus.ndjson")
    env = dict(vp.GOENV, VERIF_LEX_CORPUS=path)
    p = subprocess.run(["go", "test", "-tags", "verif", "-vet=off", "-count=1", "./..."], cwd=vp.REPO, env=env,
                       capture_output=True, text=True)
    if not os.path.exists(path):
        open(path, "w").close()
    return path


def lexer_traces(run, prop):
    """Record traces of the real lexer and validate them against spec/Trace_Lexer.tla (16 TLC processes)."""
    shards = 16
    corpus = repo_corpus(run)
    base = os.path.join(run.dir, "lextraces.ndjson")
    nrandom = 1500 if run.tier == "quick" else 20000
    n = int(run.harness_cmd(["lextrace", "-corpus", corpus, "-fixtures", vp.REPO, "-random", str(nrandom), "-out", base,
                             "-shards", str(shards)]).strip())
    jobs = [dict(module="Trace_Lexer", cfg=TRACE_LEXER_CFG % ("%s.%d" % (base, s)), name="Trace_Lexer_%d" % s,
                 timeout=3000, workers=1) for s in range(shards) if os.path.getsize("%s.%d" % (base, s)) > 0]
    sts = run.tlc_many(jobs, parallel=16)
    verdicts = 0
    for st in sts:
        vpath, cnt = run.records(st)
        verdicts += cnt
        for line in open(vpath):
            v = json.loads(line)
            if v["drift"]:
                run.counts["drift"] += 1
                if len(run.notes) < 5:
                    run.notes.append("trace drift %s: %s" % (v["id"], json.dumps(v["drift"])[:300]))
            if prop == "C19" and v["c19"] != "ok":
                run.results.append({"id": v["id"], "status": "viol", "kind": v["c19"], "family": "lextrace",
                                    "msg": "trace validation: the recorded tokens violate the C19 predicate '%s'" % v["c19"],
                                    "tags": ["trace", "last:" + v["ended"]], "case": {"id": v["id"]}})
    if verdicts != n:
        raise vp.Infra("trace validation consumed %d of %d traces" % (verdicts, n))
    run.counts["traces"] += n
    return n


TRACE_ENV_CFG = """CONSTANTS
  TracePath = "%s"
SPECIFICATION Spec
INVARIANTS LoopReserved Gen
CHECK_DEADLOCK FALSE
"""

ENV_KINDS = {"retyped": "C04", "loop-assigned": "C04", "loop-meta": "C03"}


def env_traces(run, prop, case_files, max_per_file=0, corpus=True):
    """Record traces of the evaluator's scope machine (hooks in packages object and evaluator) on model-generated
    programs and on the inputs of the repository's own tests; validate them against spec/Trace_Env.tla."""
    shards = 8
    base = os.path.join(run.dir, "envtraces.ndjson")
    args = ["envtrace", "-cases", ",".join(case_files), "-out", base, "-shards", str(shards), "-max", str(max_per_file)]
    if corpus:
        args += ["-corpus", repo_corpus(run)]
    skip = []
    while True:
        out = run.harness_cmd(args + ["-skip", ",".join(skip)], ok_codes=(0, 4)).strip().splitlines()[-1]
        if not out.startswith("TIMEOUT"):
            break
        skip.append(out.split()[1])          # a program that does not end (e.g. '@for(;;)1@end' of the repository's tests)
        if len(skip) > 8:
            raise vp.Infra("scope trace recording: more than 8 programs did not end")
    if skip:
        run.notes.append("scope traces: %d program(s) that did not end within 8 s were left out" % len(skip))
    n = int(out)
    files = ["%s.%d" % (base, s) for s in range(shards)]
    jobs = [dict(module="Trace_Env", cfg=TRACE_ENV_CFG % f, name="Trace_Env_%d" % i, timeout=3000, workers=1)
            for i, f in enumerate(files) if os.path.getsize(f) > 0]
    sts = run.tlc_many(jobs, parallel=8)
    events = 0
    for job, st in zip(jobs, sts):
        vpath, cnt = run.records(st)
        rep = json.loads(open(vpath).readline())
        if rep["consumed"] != rep["lines"]:
            raise vp.Infra("scope trace validation consumed %d of %d events" % (rep["consumed"], rep["lines"]))
        events += rep["lines"]
        trace = None
        for v in rep["bad"]:
            if trace is None:
                trace = [json.loads(x) for x in open(job["cfg"].split('"')[1])]
            src = next((e["src"] for e in trace if e["op"] == "reset" and e["prog"] == v["prog"]), "?")
            owner = ENV_KINDS.get(v["kind"])
            if owner is None or owner != prop:
                run.counts["drift"] += 1
                if len(run.notes) < 5:
                    run.notes.append("scope trace %s in %r: %s %s: %s" % (v["kind"], src[:200], v["op"], v["key"], v["detail"]))
                continue
            run.results.append({"id": "scope-trace prog %d event %d" % (v["prog"], v["line"]), "status": "viol", "kind": v["kind"],
                                "family": "envtrace",
                                "msg": "trace validation: while rendering %r the recorded %s(%s) is one the property forbids: %s"
                                       % (src[:300], v["op"], v["key"], v["detail"]),
                                "tags": ["trace", v["kind"]], "case": {"src": src, "event": v}})
    run.counts["traces"] += n
    run.counts["trace_events"] = run.counts.get("trace_events", 0) + events
    return n


def lexer_check(run, prop, rule):
    files = lexer_generate(run, prop)
    for f in files:
        run.replay("lex", f, prop=prop, name="lex-%s-%d" % (prop, files.index(f)))
        run.add_samples(f, 1)
    if prop == "C19":
        lexer_traces(run, prop)
        rule += ("; plus trace validation: token traces recorded from the real lexer on the inputs of the repository's own "
                 "tests, its fixture files and seeded random lexeme soups are stepped against the specification by TLC "
                 "(spec/Trace_Lexer.tla), which also evaluates the C19 predicates on the recorded tokens and compares the "
                 "lexer's private mode state after every token")
    return vp.finish(run, "model_checking", rule, exhaustive=True,
                     assumptions=["TLC 1.8.0 and the CommunityModules Json module",
                                  "the harness's conversion of (line, column) to byte offsets"])


@check("C05")
def c05(run):
    return lexer_check(run, "C05",
                       "every byte string up to the length bound over three adversarial 12-byte alphabets and every "
                       "sequence of lexemes up to the bound is lexed by the TLA+ model of machine L (TLC checks "
                       "Passthrough/Tiling on each) and rendered by EvaluateString; a case is non-trivial when the model "
                       "classifies it as text / escapes / comments / {{ INT }} only, so that C05 fixes its output")


@check("C19")
def c19(run):
    return lexer_check(run, "C19",
                       "same inputs as C05; the real lexer's tokens are judged by the C19 predicates (span, order, own "
                       "text, gaps, EOF position, cursor containment through token.Position.Contains); non-trivial = "
                       "more than two tokens")


PARSER_CFG = """CONSTANTS
  Inputs <- AllInputs
  DevP2 <- DevP2Intended
  MaxLex = %d
  Emit_ = TRUE
  LexSet = "%s"
  defaultInitValue = 0
SPECIFICATION Spec
INVARIANTS ProgramOrErrors PrefixRejected IllegalRejected SlotsOwned CursorSane Gen
PROPERTIES Termination
CHECK_DEADLOCK FALSE
"""


def parser_model(run):
    """Machine P (PlusCal): termination with fairness and no state constraint, ProgramOrErrors, PrefixRejected over every
    lexeme sequence of the family; every input is then parsed by the real parser."""
    # (the input sets are built without unions - TLC's union compares every new element with every old one, which made
    # 19^4 inputs take longer than 40 minutes; measured now, 8 workers: small 3 43 s (1.1 M states), exprB 4 81 s (2.0 M),
    # exprA 3 45 s (0.8 M), all 3 312 s (8.7 M), small 4 1157 s (30 M); exprB 5 took 947 s (30 M) with 14 token texts and
    # ended in an exception inside TLC (util.WrongInvocationException, after an hour, two other model checkers running) with 15 -
    # the thorough tier stays at depth 4)
    plan = ([("small", 3), ("exprB", 3), ("exprA", 2)] if run.tier == "quick"
            else [("small", 4), ("exprB", 4), ("all", 3), ("exprA", 3)])
    sts = run.tlc_many([dict(module="MC_Parser", cfg=PARSER_CFG % (n, ls), name="MC_Parser_%s_%d" % (ls, n), timeout=6000, workers=8)
                        for ls, n in plan], parallel=2)
    for st in sts:
        path, cnt = run.records(st)
        run.replay("parse", path, prop="C08", name="parse-" + st["cfg"])
        run.add_samples(path, 1)


@check("C08")
def c08(run):
    parser_model(run)
    # "as the content of any file in the template directory": the fault trees of C13 and C18 (parse faults, garbage,
    # truncations in pages, layouts and components, with pages that sort before and after the faulty file) are loaded
    # here as well - a crash or a hang of NewTemplate is a violation of C08 too
    for mod, fam in (("MC_Tree", "c13tree"), ("MC_Tree", "c18faults")):
        st = run.tlc(mod, text_cfg(fam), name="%s_%s" % (mod, fam), timeout=3000, workers=1)
        path, n = run.records(st)
        run.replay("tree", path, name="tree-" + fam)
    return lexer_check(run, "C08",
                       "machine P (spec/TwParser.tla, PlusCal, one procedure per parser function, the whole Pratt loop with its "
                       "precedence table): every sequence of up to 3 (thorough: 4) mode-closed lexemes (text, {{ }} blocks incl. "
                       "malformed ones, @if/@elseif/@else/@end, @each, @for, @insert, @component with slots, @slot, illegal "
                       "characters; thorough: the full alphabet at depth 3) optionally ended by one of 26 constructs cut in the "
                       "middle, and every sequence of up to 3 (thorough: 4) of 15 expression token texts / up to 2 (3) of 27 (incl. '&&', '||', '#') between "
                       "'{{' and '}}' and cut off by the end of the input; TLC proves Termination under fairness without a state "
                       "constraint and checks ProgramOrErrors / PrefixRejected / IllegalRejected / SlotsOwned; every input is "
                       "parsed by the real parser under a watchdog (token types of the expression inputs compared with the "
                       "real lexer's); plus: "
                       "same inputs as C05; lexing and parsing must return, with a program xor recorded errors that carry "
                       "a line; inputs the model ends in an error token (unterminated comment / string, illegal byte in "
                       "code) must be rejected; non-trivial = must-be-rejected inputs")


# ------------------------------------------------------------------ expressions: C01
def expr_cfg(family, emit=True, dev="DevPIntended"):
    return """CONSTANTS
  DevP <- %s
  Family = "%s"
  Emit_ = %s
SPECIFICATION Spec
INVARIANTS InvRoundTrip InvParses Gen
CHECK_DEADLOCK FALSE
""" % (dev, family, "TRUE" if emit else "FALSE")


@check("C01")
def c01(run):
    fams = (["pairs", "flat2", "mixed", "members", "faults", "assign", "reuse", "ieee"] if run.tier == "quick"
            else ["pairsall", "flat2", "flat3", "mixed", "members", "faults", "assign", "reuse", "triples", "ieee"])
    sts = run.tlc_many([dict(module="MC_Expr", cfg=expr_cfg(fam), name="MC_Expr_" + fam, timeout=1500, workers=2)
                        for fam in fams])
    for fam, st in zip(fams, sts):
        path, n = run.records(st)
        run.replay("render", path, name="render-" + fam, env={"TWH_ALSO_TEMPLATE": "1"})
        run.add_samples(path, 1)
    return vp.finish(run, "model_checking",
                     "expression trees (every pair, and in the thorough tier every triple, of the 11 binary operators "
                     "in every shape; unary, postfix, ternary, index forms mixed with each operator) and flat operator "
                     "sequences grouped by the specification's Pratt parser (TLC checks RoundTrip on every tree), each "
                     "with binding sets chosen to separate groupings and in several layouts; every operator and every "
                     "comparison of an arithmetic result over NaN, +Inf, -Inf, zero and ordinary doubles (from the data "
                     "map and from float division by zero); replayed through "
                     "EvaluateString; non-trivial = the model fixes the output or demands an error",
                     exhaustive=True,
                     assumptions=["int64 arithmetic modelled on small values and the +-1 neighbourhood of the int64 "
                                  "bounds; floats on short dyadic rationals, NaN and the infinities (DESIGN.md section 9)"])


@check("C09")
def c09(run):
    fams = ["kindsinfix", "kindsother", "raw09"]
    sts = run.tlc_many([dict(module="MC_Expr", cfg=expr_cfg(fam), name="MC_Expr_" + fam, timeout=1500, workers=2)
                        for fam in fams])
    for fam, st in zip(fams, sts):
        path, n = run.records(st)
        run.replay("render", path, name="render-" + fam)
        run.add_samples(path, 1)
    # every built-in x every argument-kind tuple and boundary count (the families of C11, judged for C09)
    bfams = ["str2", "arr2", "num"]
    bsts = run.tlc_many([dict(module="MC_Builtins", cfg=text_cfg(fam).replace("INVARIANTS Gen", "INVARIANTS Total Gen"),
                              name="MC_Builtins_" + fam, timeout=3000, workers=2) for fam in bfams])
    for fam, st in zip(bfams, bsts):
        path, n = run.records(st)
        run.replay("render", path, name="render-b-" + fam)
    # nil pointers and unsupported values nested in the data (the families of C12, judged for C09)
    dfams = ["bad", "g1"] if run.tier == "quick" else ["bad", "g1", "g2"]
    dsts = run.tlc_many([dict(module="MC_Data", cfg=text_cfg(fam), name="MC_Data_" + fam, timeout=3000, workers=1) for fam in dfams])
    for fam, st in zip(dfams, dsts):
        path, n = run.records(st)
        run.replay("data", path, name="data-" + fam)
    # "errors raised during evaluation carry the line of the construct": the line families of C13 (faults behind multi-line
    # preambles; the expected line is known by construction), judged for C09
    lst = run.tlc("MC_Text", text_cfg("c13one"), name="MC_Text_c13one", timeout=3000, workers=1)
    path, n = run.records(lst)
    run.replay("render", path, name="render-c13one")
    return vp.finish(run, "model_checking",
                     "the kind-confusion matrix: every binary operator x 16 value kinds on both sides (incl. the int64 "
                     "bounds, empty and non-empty strings/arrays/objects, nil), every prefix/postfix operator, index and "
                     "member access x every receiver and key kind, conditions of every kind, and raw templates with "
                     "absent loop clauses and misplaced directives; every built-in on its small domain incl. negative and "
                     "oversized counts; Go data values with nil at every pointer / interface position and each unsupported "
                     "kind (chan, func, complex, fixed-size array, non-string-keyed map, uintptr) at every depth; "
                     "the model (total: value, demanded error, or "
                     "unspecified) predicts each and the harness requires: no panic, no hang, the predicted value or "
                     "error where fixed, and a line >= 1 on every evaluation error; the single-line faults of C13 behind "
                     "every preamble must name their own line", exhaustive=True)


# ------------------------------------------------------------------ machine E (evaluator): C02 C03 C04
EVAL_INV = "ScopeBalance TypeStable LoopReserved LoopMeta Gen"


def eval_cfg(family, emit=True):
    return """CONSTANTS
  DevP <- DevPIntended
  Family = "%s"
  Emit_ = %s
SPECIFICATION Spec
INVARIANTS %s
PROPERTIES OutMonotone Terminates
CHECK_DEADLOCK FALSE
""" % (family, "TRUE" if emit else "FALSE", EVAL_INV)


def eval_check(run, fams, rule, assumptions=None, traces=False, trace_also=()):
    sts = run.tlc_many([dict(module="MC_Eval", cfg=eval_cfg(fam), name="MC_Eval_" + fam, timeout=3000, workers=2)
                        for fam in fams])
    paths = []
    for fam, st in zip(fams, sts):
        path, n = run.records(st)
        paths.append(path)
        # every program is rendered through EvaluateString and, written to a file, through NewTemplate + String
        run.replay("render", path, name="render-" + fam, env={"TWH_ALSO_TEMPLATE": "1"})
        run.add_samples(path, 1)
    if traces and not run.results:      # with a violation already found the replay decides; traces need programs that end
        env_traces(run, run.prop, paths + list(trace_also), max_per_file=1500 if run.tier == "quick" else 0)
        rule += ("; plus trace validation of the scope machine: every scope creation, Set, SetLoopVar and identifier lookup "
                 "recorded from the real evaluator on these programs and on the inputs of the repository's own tests is "
                 "stepped against spec/Trace_Env.tla by TLC, which predicts each logged result from the reconstructed "
                 "scope chain (a Set stores exactly when the name is not loop and not visible with another type)")
    return vp.finish(run, "model_checking", rule, exhaustive=True,
                     assumptions=(assumptions or []) + ["TLC 1.8.0; expected outputs come from spec/TwEval.tla, "
                                                        "written from the property statements"])


@check("C02")
def c02(run):
    fams = ["c02chains", "c02chains3q", "c02truth", "c02empty"] if run.tier == "quick" else ["c02chains", "c02chains3", "c02truth", "c02empty"]
    # truthiness of every node of data-supplied Go values (nil slices and maps, typed slices, pointers, structs): the
    # truth probes of C12's families
    dfams = ["scalars", "g1"] if run.tier == "quick" else ["scalars", "g1", "g2"]
    dsts = run.tlc_many([dict(module="MC_Data", cfg=text_cfg(fam), name="MC_Data_" + fam, timeout=3000, workers=1) for fam in dfams])
    for fam, st in zip(dfams, dsts):
        path, n = run.records(st)
        run.replay("data", path, name="data-" + fam)
    return eval_check(run, fams,
                      "every @if chain shape (0..2 @elseif, with/without @else; thorough: 3 branches and all nesting "
                      "contexts) x every vector of conditions over truthy / falsy / raising expressions of every value "
                      "kind (literal and data-supplied), at several nesting positions; the same values through ?:, "
                      "@breakIf, @continueIf; the truth value of every node of the Go data values of C12's families (nil "
                      "slices and maps are empty collections); TLC runs each program on the small-step model of machine E and the "
                      "harness replays it through EvaluateString; non-trivial = model fixes output or demands an error")


@check("C03")
def c03(run):
    return eval_check(run, ["c03each", "c03for", "c03nested", "c02empty"],
                      "@each over arrays of length 0..4 (literal and data) printing v and loop.index/iter/first/last, "
                      "with each of 8 jump directives at every position of the body, bare and under nested @if/@else; "
                      "@for with 6 init/condition/step heads; every combination of loop kinds nested with jumps in "
                      "the inner loop and in its @else body; non-array headers of every kind; TLC checks LoopMeta, "
                      "ScopeBalance, OutMonotone on every state", traces=True)


@check("C04")
def c04(run):
    fams = ["c04scopes", "c04loop"] if run.tier == "quick" else ["c04scopesall", "c04loop"]
    # names bound by component arguments: template trees linked by TwLink and run on the same machine E
    st = run.tlc("MC_Link", link_cfg("c04comp"), name="MC_Link_c04comp", timeout=3000, workers=2)
    path, n = run.records(st)
    run.replay("tree", path, name="tree-c04comp")
    c04comp = path
    # variables end with the template: the render sequences of MC_Det (assignments and reads of one name in
    # consecutive renders without data; each step's success is fixed by the model)
    std = run.tlc("MC_Det", text_cfg("all"), name="MC_Det", timeout=600, workers=1)
    dpath, dn = run.records(std)
    seqs = os.path.join(run.dir, "det-seq.ndjson")
    with open(seqs, "w") as f:
        f.writelines(l for l in open(dpath) if '"kind":"seq"' in l)
    run.replay("det", seqs, name="det-seq", env={"TWH_REPEAT": "2"}, timeout_ms=20000)
    return eval_check(run, fams,
                      "assignments and reads of names x, y with values of six types before / inside / after each of 9 "
                      "block skeletons (flat, if, else, each, for, each-in-if, loops binding x itself) x 4 data maps "
                      "pre-binding the names; 'loop' as assignment target and as data key; reads after the construct "
                      "of names bound inside it; component uses with arguments followed by reads of the argument names "
                      "(unknown afterwards, an outer variable of that name keeps its value, two uses with different "
                      "types); TLC checks TypeStable, LoopReserved, ScopeBalance on every state",
                      traces=True, trace_also=[c04comp])


# ------------------------------------------------------------------ C10, C13
def text_cfg(family):
    return """CONSTANTS
  Family = "%s"
  Emit_ = TRUE
SPECIFICATION Spec
INVARIANTS Gen
CHECK_DEADLOCK FALSE
""" % family


@check("C10")
def c10(run):
    fam = "c10len2" if run.tier == "quick" else "c10len3"
    st, st2 = run.tlc_many([dict(module="MC_Text", cfg=text_cfg(fam), name="MC_Text_" + fam, timeout=3000, workers=1),
                            dict(module="MC_Link", cfg=link_cfg("c10tree"), name="MC_Link_c10tree", timeout=900, workers=1)])
    path, n = run.records(st)
    run.replay("render", path, name="render-" + fam, env={"TWH_ALSO_TEMPLATE": "1"})
    run.add_samples(path, 2)
    path2, n2 = run.records(st2)
    run.replay("tree", path2, name="tree-c10")     # literal as insert argument, component argument, in a slot body
    return vp.finish(run, "model_checking",
                     "every literal up to the length bound over the 14-character alphabet < > & ; # \" ' a 3 4 9 x SP e-acute "
                     "(plus literals spelling existing entities) x both quote styles x 14 usage contexts (printed, "
                     "concatenated, assigned, array element, object value, @if body, ternary, @each, and raw() at each); "
                     "TLC checks NoRawAngle / AmpIsEntity / QuotesKept / Unescape(Escape(l)) = l for every literal one "
                     "character longer than the replayed bound; the harness requires the escaped (or raw) text exactly",
                     exhaustive=True)


@check("C13")
def c13(run):
    fam = "c13one" if run.tier == "quick" else "c13two"
    st, st2 = run.tlc_many([dict(module="MC_Text", cfg=text_cfg(fam), name="MC_Text_" + fam, timeout=3000, workers=1),
                            dict(module="MC_Tree", cfg=text_cfg("c13tree"), name="MC_Tree_c13tree", timeout=3000, workers=1)])
    path, n = run.records(st)
    run.replay("render", path, name="render-" + fam, env={"TWH_ALSO_TEMPLATE": "1"})   # also as a file: path of the page
    run.add_samples(path, 2)
    path2, n2 = run.records(st2)
    run.replay("tree", path2, name="tree-c13")
    run.add_samples(path2, 1)
    return vp.finish(run, "model_checking",
                     "13 single-line faults (undefined identifier, mistyped operand, unknown function / property, "
                     "division / modulo by zero, illegal character, unexpected tokens, type change, non-array) placed at "
                     "top level, in @if, @else, @each and @for bodies, after every sequence (up to the bound) of 14 "
                     "multi-line preambles (text runs, strings and comments containing newlines, CRLF, multi-line {{ }}, "
                     "blocks, non-ASCII); the expected line is known by construction; the harness requires an error "
                     "on exactly that line; template trees with a parse fault in the layout / the page / a component, an "
                     "undefined insert, an unknown component (load time: absolute path of the file containing the "
                     "construct and its line) and run-time faults in the page (fail.Error.Filepath / Line)", exhaustive=True)


@check("C11")
def c11(run):
    fams = ["str2", "arr2", "num", "twice", "argvars", "seqcalls"] if run.tier == "quick" else ["str3", "arr3", "num", "twice", "argvars", "seqcalls"]
    sts = run.tlc_many([dict(module="MC_Builtins", cfg=text_cfg(fam).replace("INVARIANTS Gen", "INVARIANTS Total Gen"),
                             name="MC_Builtins_" + fam, timeout=3000, workers=2) for fam in fams])
    for fam, st in zip(fams, sts):
        path, n = run.records(st)
        run.replay("render", path, name="render-" + fam, env={"TWH_ALSO_TEMPLATE": "1"})
        run.add_samples(path, 1)
    return vp.finish(run, "model_checking",
                     "every built-in on its whole small domain: all strings up to the length bound over {a, B, e-acute, "
                     "euro, emoji, space}, all arrays up to the bound over {1, 2, \"a\", [1], {k:1}, nil}, ints -4..4 and "
                     "the int64 bounds, floats in quarter steps -2.75..2.75 plus ties; at/truncate/repeat with every "
                     "count -1..4, slice with every (start, end) in -2..6 on lengths 0..4, contains with every "
                     "substring / element, trims, splits, decimal variants, wrong-kind and missing arguments; every call "
                     "with arguments also through variables, made twice, with receiver and arguments printed again; rendered "
                     "as {{ r = recv }}{{ r.f(args) }}|{{ r }} so the unchanged receiver is observed; custom functions "
                     "registered under every built-in name must not take precedence; output must be valid UTF-8",
                     exhaustive=True,
                     assumptions=["Unicode case mapping checked on a 6-character table only"])


@check("C12")
def c12(run):
    fams = ["scalars", "g1", "bad"] if run.tier == "quick" else ["scalars", "g1", "g2", "bad"]
    sts = run.tlc_many([dict(module="MC_Data", cfg=text_cfg(fam), name="MC_Data_" + fam, timeout=3000, workers=1)
                        for fam in fams])
    for fam, st in zip(fams, sts):
        path, n = run.records(st)
        run.replay("data", path, name="data-" + fam)
        run.add_samples(path, 1)
    return vp.finish(run, "model_checking",
                     "Go values generated by type-directed recursion in TLA+ (all ten integer widths at min / max / 0 / 5, "
                     "float32/64, strings with non-ASCII and markup, nil interface, pointers and pointers to pointers, "
                     "untyped and typed slices, string-keyed maps, structs built at run time with exported and "
                     "unexported fields, nested to depth 2 (thorough: 3), nil at every pointer and interface position, "
                     "each unsupported kind at every depth) x every access path into the converted value (.Field, "
                     ".field, [\"key\"], [i]) plus reads of unexported fields and missing keys; the harness "
                     "materialises each value with reflect, renders the path, and checks the data is DeepEqual to a "
                     "fresh copy afterwards", exhaustive=True)


# ------------------------------------------------------------------ machine K: C06 C07
def link_cfg(family):
    # c07collide: the model binds an argument over a visible name of another type (TypeStable is then not an invariant)
    collide = family == "c07collide"
    sep = {"c07lines": "  SlotSep <- SepLines\n", "c07comment": "  SlotSep <- SepComment\n", "c07tight": "  ArgLay <- LayTight\n",
           "c06uselast": "  UsePos <- PosLast\n", "c06usemid": "  UsePos <- PosMid\n"}.get(family, "")
    return """CONSTANTS
  DevP <- DevPIntended
  Family = "%s"
  Emit_ = TRUE
%sSPECIFICATION Spec
INVARIANTS ScopeBalance %sLoopReserved LoopMeta Gen
PROPERTIES OutMonotone Terminates
CHECK_DEADLOCK FALSE
""" % (family, ("  CollidePolicy <- PolicyShadow\n" if collide else "") + sep, "" if collide else "TypeStable ")


def link_check(run, fam, rule, more=()):
    fams = [fam] + list(more)
    sts = run.tlc_many([dict(module="MC_Link", cfg=link_cfg(f), name="MC_Link_" + f, timeout=3000, workers=2) for f in fams])
    for f, st in zip(fams, sts):
        path, n = run.records(st)
        run.replay("tree", path, name="tree-" + f)
        run.add_samples(path, 1)
    return vp.finish(run, "model_checking", rule, exhaustive=True,
                     assumptions=["trees are written to a scratch directory and loaded with NewTemplate after VerifReset"])


@check("C06")
def c06(run):
    return link_check(run, "c06", more=["c06uselast", "c06usemid"], rule=
                      "three layouts (reserves at top level, inside @if, inside @each) x pages inserting every subset of "
                      "the reserves, each insert in block or expression form, in both orders, with junk text between "
                      "them x 4 data maps x both spellings of @use ('layouts/main', '~main'); plus the four error trees "
                      "(undefined insert, duplicate insert incl. one nested in @if, missing layout, layout using a "
                      "layout); every tree again with the page's @use written after its inserts and after its first statement; the "
                      "model links the page (TwLink) and runs the linked program on machine E")


@check("C07")
def c07(run):
    return link_check(run, "c07", more=["c07collide", "c07lines", "c07comment", "c07tight"], rule=
                      "five component files (no slot, default slot, named slots with arguments in conditions, both) x "
                      "pages with every ordered pair of 12 uses (same component twice with different arguments and "
                      "slot bodies, with and without slots), triples, uses inside @each and @if, a component inside a "
                      "slot body, inside an insert of a page with a layout, arguments shadowing an outer variable; "
                      "error trees (undeclared slot, slot passed twice, missing component, ~ alias); arguments named like "
                      "a visible variable (assigned, from the data map, loop variable, inside an insert) of another "
                      "type: an error or the output with the argument bound, never a silently dropped argument; every "
                      "page again with line breaks / indentation and with comments between the slot bodies")


@check("C18")
def c18(run):
    fams = ["c18names", "c18faults"] if run.tier == "quick" else ["c18namesall", "c18faults"]
    jobs = [dict(module="MC_Tree", cfg=text_cfg(fam), name="MC_Tree_" + fam, timeout=3000, workers=1) for fam in fams]
    jobs.append(dict(module="MC_Loader", cfg=LOADER_CFG, name="MC_Loader", timeout=600, workers=2))
    # template names that themselves end in the extension: linked by TwLink, run on machine E
    stl = run.tlc("MC_Link", link_cfg("c18dotted"), name="MC_Link_c18dotted", timeout=3000, workers=2)
    lpath, ln = run.records(stl)
    run.replay("tree", lpath, name="tree-c18dotted")
    sts = run.tlc_many(jobs)
    for fam, st in zip(fams, sts):
        path, n = run.records(st)
        run.replay("tree", path, name="tree-" + fam)
        run.add_samples(path, 1)
    return vp.finish(run, "model_checking",
                     "names: every single entry, all entries, all templates, all non-templates (thorough: every pair) of a "
                     "9-entry file-name alphabet (nested, extension inside a directory name, inside a file name, as a "
                     "proper infix, dotted stems) x 7 directory spellings (trailing/leading slash, ./, parent segments, "
                     "nested, sub-directory) x 3 extensions; String() of every candidate name; faults: every file of a "
                     "valid page+layout+component tree x {deleted, garbage, empty, dangling symlink, directory in its "
                     "place} and truncation at every chunk boundary; EvaluateFile vs EvaluateString; the loader state "
                     "machine (every tree over 3 names x 6 file kinds, every processing order) is model-checked for "
                     "AllOrNothing and Deterministic", exhaustive=True,
                     assumptions=["the sandbox runs as root, so 'unreadable by permission' cannot be produced; a directory "
                                  "in the file's place exercises the same read-error path"])


@check("C14")
def c14(run):
    jobs = [dict(module="MC_Det", cfg=text_cfg("all"), name="MC_Det", timeout=600, workers=1),
            dict(module="MC_Loader", cfg=LOADER_CFG, name="MC_Loader", timeout=600, workers=2)]
    sts = run.tlc_many(jobs)
    path, n = run.records(sts[0])
    reps = "20" if run.tier == "quick" else "200"
    procs = 3 if run.tier == "quick" else 12
    sigs = []
    for k in range(procs):
        col = {}
        run.replay("det", path, name="det-%d" % k, env={"TWH_REPEAT": reps}, collect=col, timeout_ms=20000)
        sigs.append(col)
    # across fresh processes
    for cid in sigs[0]:
        vals = {json.dumps(sg.get(cid)) for sg in sigs if cid in sg}
        if len(vals) > 1:
            run.results.append({"id": cid, "status": "viol", "kind": "nondeterminism", "family": "det",
                                "msg": "results differ between fresh processes: " + " | ".join(sorted(vals))[:600],
                                "tags": ["cross-process"], "case": {"id": cid}})
    run.add_samples(path, 2)
    return vp.finish(run, "model_checking",
                     "order-sensitive programs and trees (objects with 2..6 keys printed, dumped, assigned and supplied as "
                     "data; object literals and component argument lists with several failing entries; data maps with "
                     "several unsupported values; pages with several undefined inserts or duplicated slots; trees with "
                     "several faulty files), each run %s times in one process and in %d fresh processes: all results "
                     "(output bytes, or error message with line and path) must be identical; the loader machine is "
                     "model-checked for Deterministic over every tree of 3 names x 6 file kinds and every processing "
                     "order" % (reps, procs), exhaustive=False,
                     assumptions=["Go randomises map iteration per loop, so repetition explores the model's PickFile choices; "
                                  "with k distinct orders the chance that N runs all agree by luck is at most k^-(N-1)"])


LOADER_CFG = """CONSTANTS
  DevP <- DevPIntended
  DevK <- DevKIntended
  NameOrder <- MCNameOrder
SPECIFICATION Spec
INVARIANTS AllOrNothing Deterministic
PROPERTIES LoadTerminates
CHECK_DEADLOCK FALSE
"""


# ------------------------------------------------------------------ machine A: C15 C16 C17
def api_cfg(mode, g, errpage, maxhist=0, dev="DevAIntended"):
    return """CONSTANTS
  G = %s
  DevA <- %s
  ErrPageExists = %s
  Mode = "%s"
  MaxHist = %d
  Emit_ = TRUE
SPECIFICATION Spec
INVARIANTS SoloEq ResponseBody Gen
PROPERTIES RenderFramesState
CHECK_DEADLOCK FALSE
""" % (g, dev, "TRUE" if errpage else "FALSE", mode, maxhist)


def race_stress(run, seconds):
    """Free-running concurrent executions under the race detector; returns violation records."""
    import glob
    logbase = os.path.join(run.dir, "racelog")
    out = os.path.join(run.dir, "stress.results.ndjson")
    crashed = None
    try:
        run.harness_cmd(["race", "-out", out, "-seconds", str(seconds)], race=True,
                        env={"GORACE": "log_path=%s halt_on_error=0 exitcode=0" % logbase}, timeout=seconds + 300)
    except vp.Infra as e:
        # the Go runtime ends the process on unsynchronised map access: that is the real code failing in concurrent use
        crashtext = str(e)
        m = re.search(r"fatal error: concurrent map[^\n]*", crashtext)
        if not m:
            raise
        crashed = m.group(0)
    bad = []
    if crashed:
        frames = re.findall(r"github\.com/textwire/textwire/v2[^\s(]*\.([A-Za-z0-9_().*]+)\(", crashtext)
        bad.append({"id": "stress-crash", "status": "viol", "kind": "concurrent-map-access", "site": frames[0] if frames else "?",
                    "family": "api", "msg": "concurrent calls ended the process: %s (in %s)" % (crashed, frames[0] if frames else "?"),
                    "tags": ["stress"], "case": {"id": "stress-crash"}})
    for line in (open(out) if os.path.exists(out) else []):
        r = json.loads(line)
        if r["status"] == "ok":
            for k, v in (r.get("stats") or {}).items():
                run.counts[k] = run.counts.get(k, 0) + v
            continue
        r["family"] = "api"
        bad.append(r)
    races = {}
    for f in glob.glob(logbase + ".*"):
        txt = open(f, errors="replace").read()
        for blk in txt.split("==================")[1:]:
            if "DATA RACE" not in blk:
                continue
            frames = re.findall(r"github\.com/textwire/textwire/v2[^\s(]*\.([A-Za-z0-9_().*]+)\(", blk)
            site = frames[0] if frames else "?"
            races.setdefault(site, blk[:1500])
    for site, blk in races.items():
        bad.append({"id": "race@" + site, "status": "viol", "kind": "race", "site": site, "family": "api",
                    "msg": "data race reported by the race detector: " + blk[:600], "tags": ["stress"],
                    "case": {"id": "race@" + site}})
    run.counts["evaluations"] += run.counts.get("rounds", 0)
    run.results += bad
    return bad


@check("C15")
def c15(run):
    if run.tier == "quick":
        jobs = [dict(module="MC_Api", cfg=api_cfg("interleave", "{1, 2}", True), name="MC_Api_il2", timeout=1500, workers=4)]
        secs = 12
    else:
        jobs = [dict(module="MC_Api", cfg=api_cfg("interleave", "{1, 2}", True), name="MC_Api_il2", timeout=3000, workers=4),
                dict(module="MC_Api", cfg=api_cfg("interleave", "{1, 2}", False), name="MC_Api_il2n", timeout=3000, workers=4),
                dict(module="MC_Api", cfg=api_cfg("interleave", "{1, 2, 3}", True), name="MC_Api_il3", timeout=6000, workers=8)]
        secs = 240
    sts = run.tlc_many(jobs, parallel=3)
    for st in sts:
        path, n = run.records(st)
        if st["cfg"] == "MC_Api_il3":
            # three goroutines: replay a seeded sample of the schedules, all of them were model-checked
            import random
            lines = open(path).read().splitlines()
            random.Random(run.seed).shuffle(lines)
            open(path, "w").write("\n".join(lines[:40000]) + "\n")
        run.replay("api", path, name="api-" + st["cfg"], timeout_ms=8000)
        run.add_samples(path, 1)
    race_stress(run, secs)
    return vp.finish(run, "model_checking",
                     "machine A (spec/TwApi.tla) splits String / Response / EvaluateString / EvaluateFile at every access "
                     "to package-level state; TLC explores every interleaving of 2 (thorough: also 3) goroutines x every "
                     "assignment of 9 operations x 4 configurations checking SoloEq and RenderFramesState, and prints "
                     "every maximal schedule; the harness replays each schedule on the real code with blocking gate "
                     "hooks at the shared accesses and compares every result with the operation's solo result; then "
                     "free-running goroutines (2/8/32, GOMAXPROCS 1/2/16, yield noise) run the same operations under "
                     "the race detector", exhaustive=True,
                     assumptions=["a TLA+ interleaving model is sequentially consistent; Go-memory-model races are observed "
                                  "with the race detector on model-driven workloads, not proved absent"])


@check("C16")
def c16(run):
    n = 3 if run.tier == "quick" else 4
    jobs = [dict(module="MC_Api", cfg=api_cfg("history", "{1}", True, n), name="MC_Api_hist", timeout=3000, workers=4),
            dict(module="MC_Api", cfg=api_cfg("history", "{1}", False, n - 1), name="MC_Api_histn", timeout=3000, workers=4),
            # operations that differ in the shape of their data: every history of n - 1 of all of them, of n of a core of twelve
            dict(module="MC_Api", cfg=api_cfg("historyd", "{1}", True, n - 1), name="MC_Api_histd", timeout=3000, workers=4),
            dict(module="MC_Api", cfg=api_cfg("historydc", "{1}", True, n), name="MC_Api_histdc", timeout=3000, workers=4)]
    sts = run.tlc_many(jobs, parallel=4)
    for st in sts:
        path, cnt = run.records(st)
        run.replay("api", path, name="api-" + st["cfg"], timeout_ms=8000)
        run.add_samples(path, 1)
    api_traces(run)
    return vp.finish(run, "model_checking",
                     "every history of up to %d operations over {String, Response} x {ok, failing, missing page} and "
                     "EvaluateString (ok, failing), EvaluateFile, under 4 configurations with and without a custom error "
                     "page; histories over operations that differ in the shape of their data (two struct types sharing a "
                     "name, one template rendered with a string / array / integer receiver) "
                     "page (TLC checks SoloEq and RenderFramesState on each); replayed on the real code: every result "
                     "must equal the result of the same operation issued first in a fresh state, and the package state "
                     "snapshot, the loaded programs and the data must be unchanged after every step; API traces "
                     "recorded from the repository's own tests are validated against Trace_Api" % n, exhaustive=True)


@check("C17")
def c17(run):
    jobs = [dict(module="MC_Api", cfg=api_cfg("response", "{1}", ep), name="MC_Api_resp%d" % ep, timeout=600, workers=2)
            for ep in (True, False)]
    sts = run.tlc_many(jobs, parallel=2)
    for st in sts:
        path, cnt = run.records(st)
        run.replay("api", path, name="api-" + st["cfg"], timeout_ms=8000)
        run.add_samples(path, 2)
    return vp.finish(run, "model_checking",
                     "{debug on, off} x {no, existing, missing custom error page} x {page that renders, page that fails "
                     "after producing output, page that does not exist} through Response on an httptest recorder; TLC "
                     "checks the ResponseBody selection table on the model; the harness classifies the real body "
                     "(rendered / custom / built-in / empty), and checks: no part of the failed page, no message or "
                     "path with debug off, message and path with debug on", exhaustive=True)


def reg_cfg(t1, t2, n):
    return """CONSTANTS
  T1 = "%s"
  T2 = "%s"
  MaxHist = %d
  Emit_ = TRUE
SPECIFICATION Spec
INVARIANTS RegOutcome CallOutcome Gen
PROPERTIES FirstWins PerType
CHECK_DEADLOCK FALSE
""" % (t1, t2, n)


@check("C20")
def c20(run):
    types = ["str", "arr", "int", "float", "bool"]
    if run.tier == "quick":
        plan = [("str", "int", 3), ("arr", "float", 3), ("bool", "str", 3), ("int", "arr", 3), ("float", "bool", 3)]
        # every ordered pair with short histories: a name registered for one type only, called on the other
        plan += [(a, b, 2) for a in types for b in types if a != b]
        # one receiver type, histories of four operations: load, a render, a registration, a call of the new function
        plan += [(a, a, 4) for a in types]
    else:
        plan = [(a, b, 3) for a in types for b in types if a != b] + [("str", "int", 4), ("arr", "bool", 4), ("float", "int", 4)] + [(a, a, 5) for a in types]
    sts = run.tlc_many([dict(module="MC_Reg", cfg=reg_cfg(a, b, n), name="MC_Reg_%s_%s_%d" % (a, b, n), timeout=3000, workers=2)
                        for a, b, n in plan], parallel=8)
    for st in sts:
        path, cnt = run.records(st)
        run.replay("reg", path, name="reg-" + st["cfg"], timeout_ms=8000)
    run.add_samples(path, 2)
    # histories of ANY length: the registry invariant is inductive (Apalache)
    obligations = [("base", ["--cinit=CInit", "--init=Init", "--inv=IndInv", "--length=0"]),
                   ("step", ["--cinit=CInit", "--init=IndInit", "--inv=IndInv", "--length=1"]),
                   ("first-wins", ["--cinit=CInit", "--init=IndInit", "--inv=FirstWins", "--length=1"])]
    discharged = 0
    for oname, oargs in obligations:
        if run.apalache("RegInd", oargs, "RegInd_" + oname):
            discharged += 1
        else:
            raise vp.Infra("Apalache found a counterexample to %s on the intended registry model (a model bug)" % oname)
    run.notes.append("Apalache: IndInv is inductive and implies FirstWins for unbounded histories (%d/%d obligations)" % (discharged, len(obligations)))
    st = run.tlc("MC_Builtins", text_cfg("conv").replace("INVARIANTS Gen", "INVARIANTS Total Gen"), name="MC_Builtins_conv",
                 timeout=1500, workers=2)
    conv, cnt = run.records(st)
    open(conv, "a").write("{}\n")          # the result round-trip probe
    run.replay("conv", conv, name="conv", timeout_ms=20000)
    run.add_samples(conv, 1)
    # the same with receiver and arguments passed as data (strings with markup and character references among them)
    st2 = run.tlc("MC_Builtins", text_cfg("convdata").replace("INVARIANTS Gen", "INVARIANTS Total Gen"), name="MC_Builtins_convdata",
                  timeout=1500, workers=2)
    conv2, cnt2 = run.records(st2)
    run.replay("conv", conv2, name="convdata", timeout_ms=20000)
    return vp.finish(run, "model_checking",
                     "the registry state machine (spec/MC_Reg.tla): every history of 3 (thorough: also 4) operations over "
                     "{Register(t, f), Register(t, built-in name), call of f / g / the built-in name on a literal and on "
                     "a variable, through the string API and through a loaded template, NewTemplate} for pairs of "
                     "receiver types; TLC checks FirstWins / PerType / RegOutcome / CallOutcome; the harness replays "
                     "each history after VerifReset with functions whose canned result identifies the registration, "
                     "and checks the registry snapshot; a conversion family passes every value kind (nested arrays / "
                     "objects, nil, the int64 bounds) as receiver and arguments to recording functions and compares "
                     "the Go types and values received, and the printed result with the same value passed as data; "
                     "spec/RegInd.tla: the registry invariant is proved inductive by Apalache (histories of any length)",
                     exhaustive=True, extra={"obligations": len(obligations), "discharged": discharged,
                                             "checker_cmd": "apalache-mc check --init=IndInit --inv=IndInv --length=1 spec/RegInd.tla"})


TRACE_API_CFG = """CONSTANTS
  TracePath = "%s"
SPECIFICATION Spec
INVARIANTS Gen
CHECK_DEADLOCK FALSE
"""


def api_traces(run):
    """Record the package-state trace of the repository's own tests (verif hooks, VERIF_API_TRACE) and validate it
    against spec/Trace_Api.tla."""
    path = os.path.join(run.dir, "apitrace.ndjson")
    env = dict(vp.GOENV, VERIF_API_TRACE=path)
    subprocess.run(["go", "test", "-tags", "verif", "-vet=off", "-count=1", "."], cwd=vp.REPO, env=env, capture_output=True, text=True)
    if not os.path.exists(path) or os.path.getsize(path) == 0:
        raise vp.Infra("no API trace was recorded from the repository's tests (hooks missing?)")
    n = sum(1 for _ in open(path))
    st = run.tlc("Trace_Api", TRACE_API_CFG % path, name="Trace_Api", timeout=900, workers=1)
    vpath, cnt = run.records(st)
    rep = json.loads(open(vpath).readline())
    run.counts["traces"] += 1
    run.counts["trace_events"] = rep["consumed"]
    if rep["bad"]:
        line, point, model, logged = rep["bad"]
        run.results.append({"id": "repo-tests-api-trace line %d" % line, "status": "viol", "kind": "state-changed", "family": "apitrace",
                            "msg": "trace validation: hook point %s left the package state as %s; the model was in %s and "
                                   "this operation may not change it that way" % (point, json.dumps(logged), json.dumps(model)),
                            "tags": ["trace", point], "case": {"id": "line %d" % line}})
    elif rep["consumed"] != n:
        raise vp.Infra("API trace validation consumed %d of %d lines" % (rep["consumed"], n))


def replay(path):
    rec = json.load(open(path))
    prop = rec["property"]
    run = vp.Run(prop, "quick", 1)
    try:
        cases = os.path.join(run.dir, "replay.ndjson")
        with open(cases, "w") as f:
            f.write(json.dumps(rec["result"]["case"]) + "\n")
        bad = run.replay(rec["family"], cases, prop=prop, workers=1)
        for r in bad:
            print("REPRODUCED property=%s kind=%s site=%s msg=%s" % (prop, r.get("kind"), r.get("site"), r.get("msg")))
        if not bad:
            print("not reproduced")
        return 1 if bad else 0
    finally:
        run.cleanup()


def selftest(args):
    """Demonstrates that the machinery is bound and non-vacuous (not a property check):
    1. every deviation switch (the pinned implementation's behaviour) makes TLC report the expected violation;
    2. corrupting one recorded field / dropping one event makes trace validation reject the trace."""
    run = vp.Run("selftest", "quick", 1)
    ok = True
    try:
        devs = [
            ("MC_Lexer", lexer_cfg("AlphaA", 4, emit=False).replace("DevIntended", "DevAsCoded"), "lexer as coded", r"Invariant \w+ is violated"),
            ("MC_Expr", expr_cfg("pairs", emit=False, dev="DevPAsCoded"), "right operand at SUM", r"Invariant InvRoundTrip is violated"),
            ("MC_Loader", LOADER_CFG.replace("DevKIntended", "DevKAsCoded"), "map-order loading", r"Invariant Deterministic is violated"),
            ("MC_Api", api_cfg("interleave", "{1, 2}", True, dev="DevAAsCoded").replace("Emit_ = TRUE", "Emit_ = FALSE"),
             "string API writes the mode flag", r"(SoloEq|RenderFramesState) (is|was) violated"),
            ("MC_Parser", (PARSER_CFG % (3, "small")).replace("DevP2Intended", "DevP2AsCoded").replace("Emit_ = TRUE", "Emit_ = FALSE"),
             "block / object loops as coded", r"Termination was violated"),
            ("MC_Parser", (PARSER_CFG % (2, "small")).replace("DevP2Intended", "DevP2Illegal").replace("Emit_ = TRUE", "Emit_ = FALSE"),
             "illegal token stepped over in a name position", r"Invariant IllegalRejected is violated"),
            ("MC_Parser", (PARSER_CFG % (2, "small")).replace("DevP2Intended", "DevP2OneAhead").replace("Emit_ = TRUE", "Emit_ = FALSE"),
             "one token of look-ahead after @component(...)", r"Invariant SlotsOwned is violated"),
            ("MC_Parser", (PARSER_CFG % (3, "small")).replace("DevP2Intended", "DevP2Blind").replace("Emit_ = TRUE", "Emit_ = FALSE"),
             "slot bodies closed by blindly skipping two tokens", r"Invariant PrefixRejected is violated"),
        ]
        for mod, cfg, what, pat in devs:
            st = run.tlc(mod, cfg, name="Dev_" + mod, timeout=900, workers=4, expect_violation=True)
            out = open(st["out"], errors="replace").read()
            hit = re.search(pat, out) is not None
            print("dev-switch %-10s %-40s -> %s" % (mod, what, "violation found (expected)" if hit else "NO VIOLATION (vacuous!)"))
            ok = ok and hit
        hit = not run.apalache("RegInd", ["--cinit=CInitDev", "--init=IndInit", "--inv=FirstWins", "--length=1"], "RegInd_dev")
        print("dev-switch RegInd     later registration replaces the first      -> %s" % ("counterexample found (expected)" if hit else "NO VIOLATION (vacuous!)"))
        ok = ok and hit
        # trace binding: lexer
        base = os.path.join(run.dir, "st.ndjson")
        run.harness_cmd(["lextrace", "-fixtures", vp.REPO, "-random", "40", "-out", base, "-shards", "1"])
        lines = open(base + ".0").read().splitlines()

        def validate(ls, name):
            p = os.path.join(run.dir, name + ".ndjson")
            open(p, "w").write("\n".join(ls) + "\n")
            st = run.tlc("Trace_Lexer", TRACE_LEXER_CFG % p, name=name, timeout=900, workers=1)
            vpath, cnt = run.records(st)
            return [json.loads(l) for l in open(vpath)]
        good = validate(lines, "st_good")
        clean = all(v["c19"] == "ok" and not v["drift"] for v in good)
        print("trace-binding lexer: %d unmodified traces accepted: %s" % (len(good), clean))
        ok = ok and clean
        rec = json.loads(lines[0])
        k = min(2, len(rec["toks"]) - 1)
        rec["toks"][k]["ec"] += 1
        bad = validate([json.dumps(rec)] + lines[1:], "st_badcol")
        rej = bool(bad[0]["drift"]) or bad[0]["c19"] != "ok"
        print("trace-binding lexer: end column of token %d corrupted -> %s" % (k, "rejected: " + json.dumps(bad[0])[:200] if rej else "ACCEPTED (not bound!)"))
        ok = ok and rej
        rec = json.loads(lines[0])
        del rec["toks"][1]
        bad = validate([json.dumps(rec)] + lines[1:], "st_drop")
        rej = bool(bad[0]["drift"]) or bad[0]["c19"] != "ok"
        print("trace-binding lexer: one event dropped -> %s" % ("rejected" if rej else "ACCEPTED (not bound!)"))
        ok = ok and rej
        rec = json.loads(lines[0])
        rec["toks"][0]["html"] = not rec["toks"][0]["html"]
        bad = validate([json.dumps(rec)] + lines[1:], "st_mode")
        rej = bool(bad[0]["drift"])
        print("trace-binding lexer: private mode flag corrupted -> %s" % ("rejected" if rej else "ACCEPTED (not bound!)"))
        ok = ok and rej
        # trace binding: API
        path = os.path.join(run.dir, "apitrace.ndjson")
        env = dict(vp.GOENV, VERIF_API_TRACE=path)
        subprocess.run(["go", "test", "-tags", "verif", "-vet=off", "-count=1", "."], cwd=vp.REPO, env=env, capture_output=True)
        tl = open(path).read().splitlines()
        for i, l in enumerate(tl):
            r = json.loads(l)
            if r["point"] == "EvaluateString.exit" and r["state"]["usesTemplates"]:
                r["state"]["usesTemplates"] = False
                tl[i] = json.dumps(r)
                break
        p2 = os.path.join(run.dir, "apitrace_bad.ndjson")
        open(p2, "w").write("\n".join(tl) + "\n")
        st = run.tlc("Trace_Api", TRACE_API_CFG % p2, name="Trace_Api_bad", timeout=900, workers=1)
        vpath, cnt = run.records(st)
        rep = json.loads(open(vpath).readline())
        rej = bool(rep["bad"])
        print("trace-binding API: mode flag flipped at line %d -> %s" % (i + 1, "rejected at line %s" % rep["bad"][0] if rej else "ACCEPTED (not bound!)"))
        ok = ok and rej
        # trace binding: scope machine
        progs = os.path.join(run.dir, "st_env_cases.ndjson")
        with open(progs, "w") as f:
            for src in ["{{ x = 1 }}@if(true){{ x = \"s\" }}@end{{ x }}", "@each(v in [1, 2, 3]){{ loop.iter }}{{ v }}@end",
                        "@each(v in [1]){{ loop = 2 }}@end", "{{ a = 1 }}@for(i = 0; i < 2; i++){{ b = i }}{{ a }}@end{{ b }}"]:
                f.write(json.dumps({"src": src, "data": [], "expect": {"kind": "any"}, "tags": []}) + "\n")
        base = os.path.join(run.dir, "st_env.ndjson")
        run.harness_cmd(["envtrace", "-cases", progs, "-out", base, "-shards", "1"])
        ev = [json.loads(l) for l in open(base + ".0")]

        def envcheck(events, name):
            p = os.path.join(run.dir, name + ".ndjson")
            open(p, "w").write("\n".join(json.dumps(e) for e in events) + "\n")
            st = run.tlc("Trace_Env", TRACE_ENV_CFG % p, name=name, timeout=900, workers=1)
            vpath, cnt = run.records(st)
            return json.loads(open(vpath).readline())
        rep = envcheck(ev, "st_env_good")
        clean = not rep["bad"] and rep["consumed"] == len(ev)
        print("trace-binding scopes: %d recorded events accepted: %s" % (len(ev), clean))
        ok = ok and clean
        i = next(k for k, e in enumerate(ev) if e["op"] == "set" and not e["ok"] and e["key"] == "x")
        ev2 = [dict(e) for e in ev]
        ev2[i]["ok"] = True
        rep = envcheck(ev2, "st_env_retyped")
        rej = any(b["kind"] == "retyped" for b in rep["bad"])
        print("trace-binding scopes: refused Set(x, STRING) logged as stored -> %s" % ("rejected (retyped)" if rej else "ACCEPTED (not bound!)"))
        ok = ok and rej
        i = next(k for k, e in enumerate(ev) if e["op"] == "set" and e["key"] == "loop")
        ev2 = [dict(e) for e in ev]
        ev2[i]["ok"] = True
        rep = envcheck(ev2, "st_env_loop")
        rej = any(b["kind"] == "loop-assigned" for b in rep["bad"])
        print("trace-binding scopes: Set(loop) logged as stored -> %s" % ("rejected (loop-assigned)" if rej else "ACCEPTED (not bound!)"))
        ok = ok and rej
        i = next(k for k, e in enumerate(ev) if e["op"] == "loop" and e["index"] == 1)
        ev2 = [dict(e) for e in ev]
        ev2[i]["iter"] = 1
        rep = envcheck(ev2, "st_env_meta")
        rej = any(b["kind"] == "loop-meta" for b in rep["bad"])
        print("trace-binding scopes: loop.iter of the second pass corrupted -> %s" % ("rejected (loop-meta)" if rej else "ACCEPTED (not bound!)"))
        ok = ok and rej
        i = next(k for k, e in enumerate(ev) if e["op"] == "read" and e["key"] == "b" and not e["ok"])
        ev2 = [dict(e) for e in ev]
        ev2[i]["ok"], ev2[i]["type"] = True, "INTEGER"
        rep = envcheck(ev2, "st_env_read")
        rej = any(b["kind"] == "drift" for b in rep["bad"])
        print("trace-binding scopes: a name bound inside @for read as visible after it -> %s" % ("rejected" if rej else "ACCEPTED (not bound!)"))
        ok = ok and rej
    except vp.Infra as e:
        print("selftest infrastructure failure:", e)
        ok = False
    finally:
        if not os.environ.get("VERIF_KEEP"):
            run.cleanup()
    print("selftest", "PASSED" if ok else "FAILED")
    return 0 if ok else 1
