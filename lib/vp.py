"""Driver library for the TLA+ model-based verification of textwire (see /verif/DESIGN.md).

Pipeline of one check:  TLC (model checking + behaviour generation)  ->  records
                        Go harness built from /repo with -tags verif ->  replay / trace recording
                        TLC (trace validation)                       ->  verdict records
                        classification against known_findings.json   ->  evidence, exit code
Exit codes: 0 property held on everything explored; 1 violation (with VIOLATION line);
            2 infrastructure trouble (TLC error on the intended model, build failure, timeout) - never a verdict.
"""
import hashlib
import json
import os
import re
import shutil
import subprocess
import sys
import time

VERIF = os.path.dirname(os.path.dirname(os.path.abspath(__file__)))
SPEC = os.path.join(VERIF, "spec")
HARNESS = os.path.join(VERIF, "harness")
CACHE = os.path.join(VERIF, "cache")
REPO = os.environ.get("VERIF_REPO", "/repo")   # the registered checks always use /repo; the override serves the seeded-change matrix
NCPU = os.cpu_count() or 4

GOENV = dict(os.environ, GOFLAGS="-mod=mod", GOPROXY="off", GOSUMDB="off", GOTOOLCHAIN="local",
             GOCACHE=os.path.join(CACHE, "gocache"))


class Infra(Exception):
    """Infrastructure failure: exit 2, never a verdict."""


def log(*a):
    print(*a, file=sys.stderr, flush=True)


def tla_unquote(line):
    body = line[1:-1]
    if "\\" not in body:
        return body
    out = []
    i = 0
    m = {'"': '"', '\\': '\\', 'n': '\n', 't': '\t', 'r': '\r', 'f': '\f'}
    while i < len(body):
        c = body[i]
        if c == '\\' and i + 1 < len(body):
            out.append(m.get(body[i + 1], body[i + 1]))
            i += 2
        else:
            out.append(c)
            i += 1
    return ''.join(out)


class Run:
    """One check run: scratch directory, TLC and harness invocations, statistics."""

    def __init__(self, prop, tier, seed):
        self.prop, self.tier, self.seed = prop, tier, seed
        self.t0 = time.time()
        self.dir = os.path.join(CACHE, "run-%s-%d" % (prop, os.getpid()))
        shutil.rmtree(self.dir, ignore_errors=True)
        os.makedirs(self.dir)
        self.specdir = os.path.join(self.dir, "spec")
        shutil.copytree(SPEC, self.specdir)
        self.tlc_runs = []      # dicts: module, cfg, generated, distinct, depth, wall_s, records
        self.harness_bin = {}
        self.results = []       # harness / trace verdict records that are not ok
        self.counts = {"evaluations": 0, "nontrivial": 0, "drift": 0, "traces": 0}
        self.samples = []
        self.notes = []

    def cleanup(self):
        shutil.rmtree(self.dir, ignore_errors=True)

    # ---------------------------------------------------------------- TLC
    def tlc(self, module, cfg, name=None, workers=None, timeout=600, simulate=None, expect_violation=False,
            deque=False, extra=()):
        """Run TLC on spec/<module>.tla with the given cfg text. Returns dict with stats and the stdout path."""
        name = name or module
        cfgpath = os.path.join(self.specdir, name + ".cfg")
        with open(cfgpath, "w") as f:
            f.write(cfg)
        meta = os.path.join(self.dir, "meta-" + name)
        outpath = os.path.join(self.dir, name + ".out")
        jar = "/opt/veriftools/tla/tla2tools.jar"
        if os.path.exists(jar):
            # java is started directly so that -Xss also sizes the main thread (initial states are computed there and
            # the recursive operators of the specification are deep); same class path and GC as the `tlc` wrapper
            launcher = ["java", "-Xss512m", "-XX:+UseParallelGC", "-cp", jar + ":/opt/veriftools/tla/CommunityModules-deps.jar", "tlc2.TLC"]
        else:
            launcher = ["tlc"]
        cmd = ["timeout", str(timeout)] + launcher + ["-workers", str(workers or NCPU), "-metadir", meta,
               "-seed", str(self.seed), "-config", cfgpath]
        if simulate:
            cmd += ["-simulate", simulate]
        cmd += list(extra) + [os.path.join(self.specdir, module + ".tla")]
        env = dict(os.environ)
        env["JAVA_TOOL_OPTIONS"] = (env.get("JAVA_TOOL_OPTIONS", "") + " -Xss512m").strip()   # deep recursive operators
        if deque:
            env["JAVA_TOOL_OPTIONS"] = (env.get("JAVA_TOOL_OPTIONS", "") +
                                        " -Dtlc2.tool.queue.IStateQueue=StateDeque").strip()
        t = time.time()
        with open(outpath, "w") as out:
            rc = subprocess.call(cmd, cwd=self.specdir, stdout=out, stderr=subprocess.STDOUT, env=env)
        wall = time.time() - t
        st = {"module": module, "cfg": name, "rc": rc, "wall_s": round(wall, 1), "out": outpath,
              "generated": 0, "distinct": 0, "depth": 0}
        tail = subprocess.run(["tail", "-c", "20000", outpath], capture_output=True, text=True).stdout
        m = re.search(r"(\d+) states generated, (\d+) distinct states found", tail)
        if m:
            st["generated"], st["distinct"] = int(m.group(1)), int(m.group(2))
        m = re.search(r"depth of the complete state graph search is (\d+)", tail)
        if m:
            st["depth"] = int(m.group(1))
        ok = "Model checking completed. No error has been found." in tail or (simulate and rc in (0, 124))
        st["ok"] = bool(ok)
        shutil.rmtree(meta, ignore_errors=True)
        self.tlc_runs.append(st)
        if rc == 124 and not simulate:
            raise Infra("TLC timed out after %ss on %s" % (timeout, name))
        if not ok and not expect_violation:
            err = subprocess.run(["grep", "-m", "12", "-E", "Error|error|violated|Invariant|Exception", outpath],
                                 capture_output=True, text=True).stdout
            raise Infra("TLC reported an error on the intended model %s (a model bug, not a verdict):\n%s\nlog: %s"
                        % (name, err, outpath))
        return st

    def apalache(self, module, args, name, timeout=300):
        """Run apalache-mc check on spec/<module>.tla; returns True when it reports no error, False on a counterexample."""
        out = os.path.join(self.dir, name + ".apalache.out")
        wd = os.path.join(self.dir, "apalache-" + name)
        os.makedirs(wd, exist_ok=True)
        cmd = ["timeout", str(timeout), "apalache-mc", "check", "--out-dir=" + wd] + list(args) + [os.path.join(self.specdir, module + ".tla")]
        with open(out, "w") as f:
            rc = subprocess.call(cmd, cwd=wd, stdout=f, stderr=subprocess.STDOUT)
        txt = open(out, errors="replace").read()
        shutil.rmtree(wd, ignore_errors=True)
        if "EXITCODE: OK" in txt:
            return True
        if "EXITCODE: ERROR (12)" in txt or "Found a violation" in txt or "invariant" in txt.lower() and "violat" in txt.lower():
            return False
        raise Infra("apalache failed on %s %s (rc %s): %s" % (module, args, rc, txt[-800:]))

    def tlc_many(self, jobs, parallel=8):
        """Run several TLC jobs (dicts of keyword arguments for tlc()) concurrently; returns their stats in order.
        Generator-heavy specs evaluate their constant definitions once per worker, so few workers per process and
        several processes is the fast configuration."""
        from concurrent.futures import ThreadPoolExecutor
        with ThreadPoolExecutor(max_workers=parallel) as ex:
            futs = [ex.submit(self.tlc, **j) for j in jobs]
            return [f.result() for f in futs]

    def records(self, st, to=None):
        """Extract the JSON records printed by PrintT(ToJson(..)) in a TLC run; writes ndjson, returns (path, n)."""
        to = to or os.path.join(self.dir, st["cfg"] + ".cases.ndjson")
        n = 0
        with open(st["out"], errors="replace") as f, open(to, "w") as g:
            for line in f:
                if line.startswith('"{'):
                    g.write(tla_unquote(line.rstrip("\n")))
                    g.write("\n")
                    n += 1
        st["records"] = n
        return to, n

    # ------------------------------------------------------------ harness
    def build(self, race=False):
        key = "race" if race else "plain"
        if key in self.harness_bin:
            return self.harness_bin[key]
        os.makedirs(GOENV["GOCACHE"], exist_ok=True)
        out = os.path.join(self.dir, "twh-" + key)
        cmd = ["go", "build", "-tags", "verif"] + (["-race"] if race else []) + ["-o", out, "."]
        env = dict(GOENV)
        if race:
            env["CGO_ENABLED"] = "1"
        hdir = HARNESS
        if REPO != "/repo":
            hdir = os.path.join(self.dir, "harness-src")
            if not os.path.exists(hdir):
                shutil.copytree(HARNESS, hdir)
                gm = open(os.path.join(hdir, "go.mod")).read().replace("=> /repo", "=> " + REPO)
                open(os.path.join(hdir, "go.mod"), "w").write(gm)
        p = subprocess.run(cmd, cwd=hdir, env=env, capture_output=True, text=True)
        if p.returncode != 0:
            raise Infra("harness build failed (does /repo still compile with -tags verif?):\n" + p.stderr[-3000:])
        self.harness_bin[key] = out
        return out

    def replay(self, family, cases, prop=None, workers=None, timeout_ms=1500, race=False, env=None, name=None,
               collect=None):
        """Replay generated cases on the real code. Returns list of non-ok result dicts; updates counters."""
        binp = self.build(race)
        name = name or (family + "-" + (prop or self.prop))
        out = os.path.join(self.dir, name + ".results.ndjson")
        # what the model expects of the cases of this file (a family that expects an error of every case decides little)
        try:
            kinds = {}
            with open(cases) as f:
                for line in f:
                    if '"expect"' not in line:
                        continue
                    rec = json.loads(line)
                    exps = [rec["expect"]] if isinstance(rec.get("expect"), dict) else []
                    exps += [o["expect"] for o in rec.get("ops", []) if isinstance(o, dict) and isinstance(o.get("expect"), dict)]
                    for x in exps:
                        kinds[x.get("kind", "?")] = kinds.get(x.get("kind", "?"), 0) + 1
            if kinds:
                self.counts.setdefault("expectation_kinds", {})[name] = kinds
        except (OSError, ValueError):
            pass
        e = dict(os.environ, TWH_PROP=prop or self.prop, VERIF_SEED=str(self.seed), TWH_SCRATCH=self.dir)
        if env:
            e.update(env)
        p = subprocess.run([binp, "run", "-family", family, "-cases", cases, "-out", out,
                            "-workers", str(workers or NCPU), "-timeout", str(timeout_ms)],
                           env=e, capture_output=True, text=True)
        if p.returncode != 0:
            raise Infra("harness run failed: " + p.stderr[-2000:])
        bad = []
        n = 0
        with open(out) as f:
            for line in f:
                line = line.strip()
                if not line:
                    continue
                r = json.loads(line)
                n += 1
                for k, v in (r.get("stats") or {}).items():
                    self.counts[k] = self.counts.get(k, 0) + v
                if collect is not None and r.get("got") and "sig" in r["got"]:
                    collect[r["id"]] = r["got"]["sig"]
                if r["status"] == "ok":
                    continue
                if r["status"] == "drift":
                    self.counts["drift"] += 1
                    if len(self.notes) < 5:
                        self.notes.append("drift: %s: %s" % (r.get("id"), r.get("msg")))
                    continue
                if r["status"] == "skip":
                    raise Infra("harness could not run case %s: %s" % (r.get("id"), r.get("msg")))
                r["family"] = family
                bad.append(r)
        self.counts["evaluations"] += n
        self.results += bad
        return bad

    def harness_cmd(self, args, race=False, env=None, timeout=3600, ok_codes=(0,)):
        binp = self.build(race)
        e = dict(os.environ, TWH_PROP=self.prop, VERIF_SEED=str(self.seed), TWH_SCRATCH=self.dir)
        if env:
            e.update(env)
        try:
            p = subprocess.run([binp] + args, env=e, capture_output=True, text=True, timeout=timeout)
        except subprocess.TimeoutExpired:
            raise Infra("harness %s did not finish within %d s" % (args[0], timeout))     # a timeout is never a verdict
        if p.returncode not in ok_codes:
            err = p.stderr if len(p.stderr) < 6000 else p.stderr[:3000] + "\n[...]\n" + p.stderr[-3000:]
            raise Infra("harness %s failed (exit %d): %s" % (args[0], p.returncode, err))
        return p.stdout

    def add_samples(self, path, n=3):
        try:
            with open(path) as f:
                for i, line in enumerate(f):
                    if i >= n:
                        break
                    rec = json.loads(line)
                    s = json.dumps(rec)
                    self.samples.append(rec if len(s) < 1500 else s[:1500] + "...")
        except OSError:
            pass


# -------------------------------------------------------------- known findings
def load_findings():
    p = os.path.join(VERIF, "known_findings.json")
    if not os.path.exists(p):
        return []
    return json.load(open(p)).get("findings", [])


def finding_matches(f, prop, r):
    if f.get("status") != "open" or f.get("property") != prop:
        return False
    m = f.get("match", {})
    if "kind" in m and r.get("kind") not in ([m["kind"]] if isinstance(m["kind"], str) else m["kind"]):
        return False
    if "site" in m and not re.search(m["site"], r.get("site") or ""):
        return False
    for t in m.get("tags", []):
        if t not in (r.get("tags") or []):
            return False
    if "msg" in m and not re.search(m["msg"], r.get("msg") or "", re.S):
        return False
    if "input" in m:
        case = r.get("case")
        text = case_text(case)
        if not re.search(m["input"], text, re.S):
            return False
    return True


def case_text(case):
    """A printable form of the case's input, used by 'input' regexes of known findings."""
    if not isinstance(case, dict):
        return json.dumps(case)
    if "inp" in case and isinstance(case["inp"], list):
        try:
            return bytes(case["inp"]).decode("latin-1")
        except Exception:
            return json.dumps(case["inp"])
    if "src" in case:
        return case["src"]
    return json.dumps(case, sort_keys=True)


def finish(run, level, rule, exhaustive=False, extra=None, assumptions=None):
    """Classify results, write replay files and evidence, print verdict lines, return exit code."""
    prop = run.prop
    findings = load_findings()
    known = {}
    violations = []
    for r in run.results:
        hit = None
        for f in findings:
            if finding_matches(f, prop, r):
                hit = f
                break
        if hit:
            known.setdefault(hit["id"], [hit, 0])[1] += 1
        else:
            violations.append(r)
    for fid, (f, n) in sorted(known.items()):
        print("KNOWN-FINDING: property=%s %s (%s; %d cases)" % (prop, f["what"], fid, n))
    outroot = os.environ.get("VERIF_OUT", VERIF)      # the seeded-change matrix writes its evidence and replays elsewhere
    rdir = os.path.join(outroot, "replays", prop)
    shown = 0
    seen = set()
    if violations:
        os.makedirs(rdir, exist_ok=True)
    for r in violations:
        key = (r.get("kind"), r.get("site"), tuple(r.get("tags") or []))
        if key in seen and shown >= 3:
            continue
        seen.add(key)
        if shown >= 20:
            break
        h = hashlib.sha1(json.dumps(r, sort_keys=True).encode()).hexdigest()[:12]
        path = os.path.join(rdir, "%s.json" % h)
        with open(path, "w") as f:
            json.dump({"property": prop, "family": r.get("family"), "result": r}, f, indent=1)
        print("VIOLATION property=%s replay=%s" % (prop, path))
        log("  kind=%s site=%s msg=%s" % (r.get("kind"), r.get("site"), (r.get("msg") or "")[:300]))
        shown += 1
    states = sum(t["generated"] for t in run.tlc_runs)
    distinct = sum(t["distinct"] for t in run.tlc_runs)
    cov = {
        "states": distinct,
        "transitions": states,
        "traces_validated_against_impl": run.counts.get("evaluations", 0) + run.counts.get("traces", 0),
        "samples": run.samples[:6] or ["(no sample recorded)"],
        "evaluations": run.counts.get("evaluations", 0) + run.counts.get("traces", 0),
        "distinct_nontrivial": run.counts.get("nontrivial", 0),
        "rule": rule,
        "exhaustive": bool(exhaustive),
        "tlc_runs": [{k: t[k] for k in ("module", "cfg", "generated", "distinct", "depth", "wall_s") if k in t}
                     | ({"records": t["records"]} if "records" in t else {}) for t in run.tlc_runs],
        "drift_cases": run.counts.get("drift", 0),
        "known_findings_hit": {fid: n for fid, (f, n) in known.items()},
        "notes": run.notes[:10],
    }
    for k, v in run.counts.items():
        if k not in ("evaluations", "nontrivial", "drift", "traces"):
            cov["count_" + k] = v
    if extra:
        cov.update(extra)
    ev = {
        "property_id": prop, "tier": run.tier, "seed": run.seed, "level": level, "coverage": cov,
        "assumptions": assumptions or [],
        "wall_s": round(time.time() - run.t0, 1),
        "violations": len(violations),
    }
    os.makedirs(os.path.join(outroot, "evidence"), exist_ok=True)
    with open(os.path.join(outroot, "evidence", prop + ".json"), "w") as f:
        json.dump(ev, f, indent=1)
    return 1 if violations else 0
